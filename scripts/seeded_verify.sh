#!/usr/bin/env bash
# Confirm a seeded change delivered by a sub-agent in a scratch worktree ($1 = worktree dir):
#   existing suite (without the demo) passes with the change; the demo fails with the change and
#   passes without it. Prints a one-line verdict per step.
set -u
D=$1
cd "$D" || exit 2
[ -s SEED_PATCH.diff ] || { echo "no SEED_PATCH.diff"; exit 2; }
export CARGO_TARGET_DIR="$D/target"
mv tests/seed_demo.rs /tmp/$(basename $D)_demo.rs.tmp
cargo test --workspace --no-fail-fast --offline > "$D/verify_suite.log" 2>&1; rc=$?
mv /tmp/$(basename $D)_demo.rs.tmp tests/seed_demo.rs
echo "suite-with-change rc=$rc $(grep -E '^test result' "$D/verify_suite.log" | tr '\n' ' ' | cut -c1-200)"
cargo test --offline --test seed_demo > "$D/verify_demo_with.log" 2>&1; rc=$?
echo "demo-with-change rc=$rc $(grep -E '^test result' "$D/verify_demo_with.log" | tr '\n' ' ')"
git apply -R SEED_PATCH.diff
cargo test --offline --test seed_demo > "$D/verify_demo_without.log" 2>&1; rc=$?
echo "demo-without-change rc=$rc $(grep -E '^test result' "$D/verify_demo_without.log" | tr '\n' ' ')"
git apply SEED_PATCH.diff
git diff --stat -- src derive | tail -1
