#!/usr/bin/env bash
# Run the quick checks of the named properties against a scratch worktree holding a seeded change.
#   usage: scripts/seed_try.sh <worktree> <ID> [<ID> ...]     (env: VERIF_RUNS to override run counts)
# Prints one line per property: caught / MISSED with the oracle ids, then replays the first replay
# file on the changed tree (must reproduce) and on /repo (must be clean).
set -u
VERIF=$(cd "$(dirname "$0")/.." && pwd)
D=$1; shift
for p in "$@"; do
  log="$D/check-$p.log"
  env VERIF_REPO="$D" VERIF_OUT="$D/.verif-out" timeout -k 5 2400 "$VERIF/check" "$p" quick >"$log" 2>&1; rc=$?
  oracle=$(grep -o "oracle=[A-Za-z0-9_.-]*" "$log" | sort -u | tr '\n' ' ')
  verdict=MISSED; [ $rc -eq 1 ] && verdict=caught; [ $rc -ge 2 ] && verdict=harness-error-rc$rc
  rep=""; f=$(grep -o "replay=[^ ]*\.json" "$log" | head -1 | cut -d= -f2)
  if [ -n "$f" ] && [ -f "$f" ]; then
    VERIF_REPO="$D" "$VERIF/check" replay "$f" >/dev/null 2>&1; r1=$?
    "$VERIF/check" replay "$f" >/dev/null 2>&1; r0=$?
    rep="replay-on-changed=$r1 replay-on-unchanged=$r0"
  fi
  echo "$(basename $D) $p $verdict $oracle $rep"
done
