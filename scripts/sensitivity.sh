#!/usr/bin/env bash
# Sensitivity: apply each mutant of /verif/mutants (or the ones named on the command line) to a
# scratch worktree of /repo (outside /repo, /verif and /tmp), confirm that the crate's own test
# suite still passes, run the quick check of every property expected to catch it against the
# scratch tree (VERIF_REPO), and report caught / missed. The worktree and its build output are
# removed afterwards. Results: /verif/mutants/results.json (one line per mutant x property).
#   usage: scripts/sensitivity.sh [-j N] [-s] [mutant-name ...]     (-s: skip the crate's own tests)
set -u
VERIF=$(cd "$(dirname "$0")/.." && pwd); REPO=/repo; SCRATCH=${SCRATCH:-/root/scratch/sens}
JOBS=4; SKIPTESTS=0
while getopts "j:s" o; do case $o in j) JOBS=$OPTARG;; s) SKIPTESTS=1;; esac; done; shift $((OPTIND-1))
mkdir -p "$SCRATCH"
names=("$@"); if [ ${#names[@]} -eq 0 ]; then names=($(python3 -c "import json;print(' '.join(m['name'] for m in json.load(open('$VERIF/mutants/index.json'))))")); fi
RUNS=${VERIF_RUNS:-}
one() {
  local name=$1 dir="$SCRATCH/$1" out="$SCRATCH/$1.result"
  : > "$out"
  git -C $REPO worktree remove --force "$dir" >/dev/null 2>&1; rm -rf "$dir"
  git -C $REPO worktree add -q --detach "$dir" HEAD || { echo "$name worktree-failed" >> "$out"; return; }
  if ! git -C "$dir" apply "$VERIF/mutants/$name.patch"; then echo "$name - patch-does-not-apply" >> "$out"; git -C $REPO worktree remove --force "$dir"; return; fi
  local tests=skipped
  if [ $SKIPTESTS -eq 0 ]; then
    (cd "$dir" && CARGO_TARGET_DIR="$dir/target" timeout -k 5 240 cargo test --workspace --no-fail-fast --offline >"$dir/tests.log" 2>&1); trc=$?
    if [ $trc -eq 0 ]; then tests=pass; elif [ $trc -ge 124 ]; then tests=HANG; pkill -9 -f "$dir/target/debug/deps" 2>/dev/null; else tests=FAIL; fi
  fi
  local props; props=$(python3 -c "import json;print(' '.join(next(m['expected'] for m in json.load(open('$VERIF/mutants/index.json')) if m['name']=='$name')))")
  for p in $props; do
    local log="$dir/check-$p.log"
    env VERIF_REPO="$dir" VERIF_OUT="$dir/.verif-out" VERIF_WORKERS=${VERIF_WORKERS:-4} ${RUNS:+VERIF_RUNS=$RUNS} timeout -k 5 2400 "$VERIF/check" "$p" quick >"$log" 2>&1; local rc=$?
    [ $rc -ge 124 ] && pkill -9 -f "$dir/.verif-target" 2>/dev/null
    local oracle; oracle=$(grep -o "oracle=[A-Za-z0-9_.-]*" "$log" | sort -u | tr '\n' ' ')
    local verdict=MISSED; [ $rc -eq 1 ] && verdict=caught; [ $rc -ge 2 ] && verdict=harness-error
    # does the replay reproduce on the mutant and stay clean on the unchanged tree?
    local rep=""; local f; f=$(grep -o "replay=[^ ]*\.json" "$log" | head -1 | cut -d= -f2)
    if [ -n "$f" ] && [ -f "$f" ]; then
      VERIF_REPO="$dir" "$VERIF/check" replay "$f" >/dev/null 2>&1; local r1=$?
      "$VERIF/check" replay "$f" >/dev/null 2>&1; local r0=$?
      rep="replay-on-mutant=$r1 replay-on-unchanged=$r0"
    fi
    echo "$name $p tests=$tests $verdict rc=$rc $oracle $rep" >> "$out"
  done
  rm -rf "$dir/.verif-target" "$dir/.verif-sim" "$dir/.verif-out" "$dir/target"
  git -C $REPO worktree remove --force "$dir" >/dev/null 2>&1; rm -rf "$dir"
}
export -f one; export VERIF REPO SCRATCH SKIPTESTS RUNS
printf "%s\n" "${names[@]}" | xargs -P "$JOBS" -I{} bash -c 'one {}'
cat "$SCRATCH"/*.result | sort | tee "$VERIF/mutants/results.txt"
echo "missed: $(grep -c MISSED "$VERIF/mutants/results.txt")  caught: $(grep -c caught "$VERIF/mutants/results.txt")  harness errors: $(grep -c harness-error "$VERIF/mutants/results.txt")"
rm -rf "$SCRATCH"
