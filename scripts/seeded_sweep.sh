#!/usr/bin/env bash
# Re-run the checks against every seeded change kept in /verif/seeded (or the ones named): each
# patch.diff is applied to a scratch worktree of /repo (outside /repo, /verif and /tmp), the quick
# check of every property listed under caught_by / expected_checks in its meta.json is run against
# that tree (VERIF_REPO), the first replay file is replayed on the changed tree (must reproduce) and
# on /repo (must be clean). The worktree and its build output are removed afterwards.
#   usage: scripts/seeded_sweep.sh [-j N] [id ...]       results: /verif/seeded/results.txt
set -u
VERIF=$(cd "$(dirname "$0")/.." && pwd); REPO=/repo; SCRATCH=${SCRATCH:-/root/scratch/seedsweep}
JOBS=4
while getopts "j:" o; do case $o in j) JOBS=$OPTARG;; esac; done; shift $((OPTIND-1))
mkdir -p "$SCRATCH"
names=("$@"); if [ ${#names[@]} -eq 0 ]; then names=($(ls -d $VERIF/seeded/*/ | xargs -n1 basename)); fi
one() {
  local name=$1 dir="$SCRATCH/$1" out="$SCRATCH/$1.result"
  : > "$out"
  [ -f "$VERIF/seeded/$name/patch.diff" ] || { echo "$name - no-change-delivered" >> "$out"; return; }
  git -C $REPO worktree remove --force "$dir" >/dev/null 2>&1; rm -rf "$dir"
  git -C $REPO worktree add -q --detach "$dir" HEAD || { echo "$name worktree-failed" >> "$out"; return; }
  cp $REPO/Cargo.lock "$dir/" 2>/dev/null
  if ! git -C "$dir" apply "$VERIF/seeded/$name/patch.diff"; then echo "$name - patch-does-not-apply" >> "$out"; git -C $REPO worktree remove --force "$dir"; return; fi
  local props; props=$(python3 -c "import json;m=json.load(open('$VERIF/seeded/$name/meta.json'));print(' '.join(m.get('expected_checks') or list(m.get('caught_by',{}).keys())))")
  for p in $props; do
    local log="$dir/check-$p.log"
    env VERIF_REPO="$dir" VERIF_OUT="$dir/.verif-out" VERIF_WORKERS=${VERIF_WORKERS:-4} timeout -k 5 2400 "$VERIF/check" "$p" quick >"$log" 2>&1; local rc=$?
    [ $rc -ge 124 ] && pkill -9 -f "$dir/.verif-target" 2>/dev/null
    local oracle; oracle=$(grep -o "oracle=[A-Za-z0-9_.-]*" "$log" | sort -u | tr '\n' ' ')
    local verdict=MISSED; [ $rc -eq 1 ] && verdict=caught; [ $rc -ge 2 ] && verdict=harness-error
    local rep=""; local f; f=$(grep -o "replay=[^ ]*\.json" "$log" | head -1 | cut -d= -f2)
    if [ -n "$f" ] && [ -f "$f" ]; then
      VERIF_REPO="$dir" "$VERIF/check" replay "$f" >/dev/null 2>&1; local r1=$?
      "$VERIF/check" replay "$f" >/dev/null 2>&1; local r0=$?
      rep="replay-on-changed=$r1 replay-on-unchanged=$r0"
    fi
    echo "$name $p $verdict rc=$rc $oracle $rep" >> "$out"
  done
  rm -rf "$dir/.verif-target" "$dir/.verif-sim" "$dir/.verif-out" "$dir/target"
  git -C $REPO worktree remove --force "$dir" >/dev/null 2>&1; rm -rf "$dir"
}
export -f one; export VERIF REPO SCRATCH
printf "%s\n" "${names[@]}" | xargs -P "$JOBS" -I{} bash -c 'one {}'
cat "$SCRATCH"/*.result | sort | tee "$VERIF/seeded/results.txt"
echo "missed: $(grep -c MISSED "$VERIF/seeded/results.txt")  caught: $(grep -c caught "$VERIF/seeded/results.txt")  harness errors: $(grep -c harness-error "$VERIF/seeded/results.txt")"
rm -rf "$SCRATCH"
