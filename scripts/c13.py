#!/usr/bin/env python3
"""C13 (and the conjuring clause of C19): probe corpus driver.

  c13.py check <C13|C19probe> <tier>     build the corpus, run every probe rustc accepted, write evidence
  c13.py replay <file>                   rebuild the probe named in the replay file and re-run its plan

rustc decides which probes exist: stale binaries are deleted, `cargo build --bins --keep-going`
builds what compiles. Every probe that exists is the simulator specialised to one route to write
access and runs under the C01 oracle (gcsim::probe). Exit: 0 held, 1 violation, 2 harness error."""
import json, os, subprocess, sys, time, glob, shutil
from concurrent.futures import ThreadPoolExecutor

VERIF = os.path.dirname(os.path.dirname(os.path.abspath(__file__)))
REPO = os.environ.get("VERIF_REPO", "/repo")
OUT = os.environ.get("VERIF_OUT", VERIF)
SEED = int(os.environ.get("VERIF_SEED", "1"))
if REPO == "/repo":
    TARGET = f"{VERIF}/target/probes"; SIM = f"{VERIF}/sim"; PDIR = f"{VERIF}/sim/probes"
else:
    TARGET = f"{REPO}/.verif-target/probes"; SIM = f"{REPO}/.verif-sim"; PDIR = f"{REPO}/.verif-sim/probes"

def build():
    """Returns (accepted names, rejected {name: first error line})."""
    corpus = json.load(open(f"{VERIF}/sim/probes/corpus.json"))
    names = [p["name"] for p in corpus]
    man = open(f"{VERIF}/sim/probes/Cargo.toml.in").read().replace("@REPO@", REPO).replace("@SIM@", SIM)
    mp = f"{PDIR}/Cargo.toml"
    if not os.path.exists(mp) or open(mp).read() != man:
        open(mp, "w").write(man)
    if not os.path.exists(f"{PDIR}/Cargo.lock"):
        shutil.copy(f"{VERIF}/sim/Cargo.lock", f"{PDIR}/Cargo.lock")
    bindir = f"{TARGET}/release"
    for n in names:                       # stale binaries must not survive a rejection
        for f in glob.glob(f"{bindir}/{n}") + glob.glob(f"{bindir}/deps/{n}-*"):
            try: os.remove(f)
            except OSError: pass
    env = dict(os.environ, CARGO_NET_OFFLINE="true", RUSTFLAGS="--cfg gc_arena_verif")
    r = subprocess.run(["cargo", "build", "--offline", "--release", "--bins", "--keep-going", "--target-dir", TARGET, "--message-format=short"],
                       cwd=PDIR, env=env, capture_output=True, text=True)
    accepted = [n for n in names if os.path.exists(f"{bindir}/{n}")]
    rejected = {}
    for n in names:
        if n in accepted: continue
        why = [l for l in r.stderr.splitlines() if f"src/bin/{n}.rs" in l and "error" in l]
        rejected[n] = (why[0].split("error", 1)[1].strip(": ") if why else "did not build")[:300]
    if not accepted and "could not compile `gcsim`" in r.stderr or "error: could not find" in r.stderr:
        print("harness error: the probe support library did not build", file=sys.stderr)
        print("\n".join(r.stderr.splitlines()[-30:]), file=sys.stderr)
        sys.exit(2)
    return corpus, accepted, rejected

def run_probe(name, runs, workdir):
    out = f"{workdir}/{name}.json"
    r = subprocess.run([f"{TARGET}/release/{name}", str(SEED), str(runs), out], capture_output=True, text=True)
    try:
        res = json.load(open(out))
    except Exception:
        res = {"probe": name, "runs": 0, "violation": None, "crash": f"exit {r.returncode}: {r.stderr[-300:]}"}
    res["rc"] = r.returncode
    return res

def check(prop, tier):
    t0 = time.time()
    runs = int(os.environ.get("VERIF_RUNS", "0")) or (6000 if tier == "quick" else 200000)
    corpus, accepted, rejected = build()
    only = (lambda n: n.startswith("z")) if prop == "C19probe" else (lambda n: not n.startswith("z"))
    accepted = [n for n in accepted if only(n)]; rejected = {n: w for n, w in rejected.items() if only(n)}
    workdir = f"{TARGET}/work-{os.getpid()}"; os.makedirs(workdir, exist_ok=True)
    with ThreadPoolExecutor(max_workers=int(os.environ.get("VERIF_WORKERS", "16"))) as ex:
        results = list(ex.map(lambda n: run_probe(n, runs, workdir), accepted))
    shutil.rmtree(workdir, ignore_errors=True)
    violations = 0; reported = []
    pid = "C13" if prop == "C13" else "C19"
    os.makedirs(f"{OUT}/replays", exist_ok=True)
    for res in results:
        if res.get("violation") or res.get("crash"):
            violations += 1
            path = f"{OUT}/replays/{pid}-{res['probe']}-s{SEED}.json"
            json.dump({"version": 1, "property": pid, "probe": res["probe"], "seed": SEED, "plan": res.get("plan"), "violation": res.get("violation") or res.get("crash"), "profile": "checked"}, open(path, "w"), indent=1)
            print(f"VIOLATION property={pid} replay={path} oracle={pid}.{res['probe']}")
            print(f"  {res.get('violation') or res.get('crash')}")
            reported.append({"oracle": f"{pid}.{res['probe']}", "detail": res.get("violation") or res.get("crash"), "replay": path})
    expect = {p["name"]: p["expect"] for p in corpus}
    surprises = [n for n in accepted if expect.get(n) == "reject"] + [n for n in rejected if expect.get(n) == "accept"]
    for n in surprises:
        print(f"note: probe {n} was {'accepted' if n in accepted else 'rejected'} by rustc, corpus expected the opposite")
    evals = sum(r.get("runs", 0) for r in results)
    distinct = sum(r.get("distinct_nontrivial", 0) for r in results)
    wall = time.time() - t0
    ev = {"property_id": pid, "tier": tier, "seed": SEED, "level": "exploration",
          "coverage": {"evaluations": max(evals, 1), "distinct_nontrivial": distinct,
                       "rule": "Cases are (probe, seeded plan) pairs: each accepted probe (a #![forbid(unsafe_code)] program taking exactly one route to write access) is run through seeded schedules placing one adoption at a drawn point of a collection cycle (collector asleep / after k single marking units / fully marked / k sweep units in; parent chosen among reachable nodes; optional grandchild; shared-interior variant where the route allows sharing), followed by 0-4 single work units and two finish_cycle calls, then everything safe code can reach from the root is checked intact (C01 oracle). Non-trivial iff the adoption happened during Marking/Marked into a fully traced (black) parent; distinct by (position, k, shared, grandchild, phase) signature, summed over probes (signatures of different probes are different cases).",
                       "samples": [{"probe": r["probe"], "plan": r.get("sample")} for r in results if r.get("sample")][:3] or [{"rejected_probe": n, "rustc": w} for n, w in list(rejected.items())[:2]],
                       "probes_accepted_by_rustc": accepted, "probes_rejected_by_rustc": rejected, "unexpected_rustc_verdicts": surprises,
                       "per_probe": {r["probe"]: {k: r.get(k) for k in ("runs", "nontrivial", "distinct_nontrivial", "foreign", "violation")} for r in results},
                       "runs_per_hour": int(evals / wall * 3600) if wall > 0 else 0,
                       "faults_fired": {}, "real_vs_stub": "real: gc-arena from the tree under test, rustc as the accept/reject oracle; stubbed: the probe programs themselves (hand-written corpus), the allocator wrapper",
                       "violations_reported": reported},
          "assumptions": ["sound by construction (an accepted safe program that loses a reachable value is a counterexample), limited by the corpus", "one adoption per run"],
          "wall_s": wall, "violations": violations}
    if prop == "C13":
        os.makedirs(f"{OUT}/evidence", exist_ok=True)
        json.dump(ev, open(f"{OUT}/evidence/C13.json", "w"), indent=1)
    else:
        json.dump(ev, open(f"{OUT}/evidence/C19.probe.tmp", "w"), indent=1)
    print(f"{pid} probes: {len(accepted)} accepted, {len(rejected)} rejected by rustc; {evals} runs, {distinct} distinct non-trivial; violations {violations}; {wall:.1f}s")
    sys.exit(1 if violations else 0)

def replay(path):
    rf = json.load(open(path))
    corpus, accepted, rejected = build()
    n = rf["probe"]
    if n not in accepted:
        print(f"REPLAY property={rf['property']} probe={n}: rustc rejects the probe on this tree ({rejected.get(n)}): nothing to run")
        sys.exit(0)
    plan = f"{TARGET}/replay-plan-{os.getpid()}.json"
    json.dump(rf["plan"], open(plan, "w"))
    r = subprocess.run([f"{TARGET}/release/{n}", "--replay", plan]); os.remove(plan)
    if r.returncode == 1:
        print(f"VIOLATION property={rf['property']} replay={path}")
    sys.exit(r.returncode if r.returncode in (0, 1) else 1)

if __name__ == "__main__":
    if sys.argv[1] == "check": check(sys.argv[2], sys.argv[3] if len(sys.argv) > 3 else "quick")
    elif sys.argv[1] == "replay": replay(sys.argv[2])
    else: sys.exit(2)
