#!/usr/bin/env bash
# Miri tier (thorough tier of the memory-safety properties): the same simulator, shrunk (short
# schedules over small graphs, props::swarm under cfg(miri)), run under the Miri interpreter as an
# independent oracle for undefined behaviour: reads of released or uninitialised memory, misaligned
# accesses (symbolic alignment check), invalid values, data the borrow model forbids. The allocator
# seam is off there (Miri watches every access itself); the event oracles still run.
#   usage: scripts/miri_tier.sh <ID> <runs> <evidence-fragment.json>
#   env:   VERIF_REPO, VERIF_OUT, VERIF_SEED, VERIF_WORKERS (processes, default 16)
# Exit 0 clean, 1 undefined behaviour or an oracle violation (VIOLATION line printed), 2 harness error.
set -u
ID=$1; RUNS=$2; FRAG=$3
VERIF=$(cd "$(dirname "$0")/.." && pwd)
REPO=${VERIF_REPO:-/repo}
OUT=${VERIF_OUT:-$VERIF}
SEED=${VERIF_SEED:-1}
W=${VERIF_WORKERS:-16}
if [ "$REPO" = /repo ]; then TARGET="$VERIF/target/miri"; SIMDIR="$VERIF/sim"; else TARGET="$REPO/.verif-target/miri"; SIMDIR="$REPO/.verif-sim"; fi
export CARGO_NET_OFFLINE=true
export RUSTFLAGS="--cfg gc_arena_verif"
export MIRIFLAGS="-Zmiri-disable-isolation -Zmiri-symbolic-alignment-check"
WORK="$TARGET/work-$ID-$$"; mkdir -p "$WORK" "$OUT/replays"
t0=$(date +%s)
# build once (zero runs), so that the parallel processes below only take the build lock briefly
if ! (cd "$SIMDIR" && cargo +nightly miri run --offline --target-dir "$TARGET" --bin sim -- miri-batch "$ID" "$SEED" 0 0 "$WORK" >"$WORK/build.log" 2>&1); then
  echo "harness error: the simulator does not build or start under Miri" >&2; grep -E "^error" -A8 "$WORK/build.log" | head -40 >&2; exit 2
fi
per=$(( (RUNS + W - 1) / W ))
pids=()
for w in $(seq 0 $((W-1))); do
  from=$((w * per)); [ $from -ge $RUNS ] && break
  cnt=$per; [ $((from + cnt)) -gt $RUNS ] && cnt=$((RUNS - from))
  (cd "$SIMDIR" && cargo +nightly miri run --offline --target-dir "$TARGET" --bin sim -- miri-batch "$ID" "$SEED" $from $cnt "$WORK" >"$WORK/w$w.log" 2>&1; echo $? >"$WORK/w$w.rc") &
  pids+=($!)
done
wait "${pids[@]}"
rc=0; done_runs=0; ub=0; orc=0; events=0; ops=0; detail=""
for f in "$WORK"/w*.log; do
  w=$(basename "$f" .log)
  r=$(cat "$WORK/$w.rc" 2>/dev/null || echo 2)
  n=$(grep -c "^MIRI-RUN" "$f"); done_runs=$((done_runs + n))
  events=$((events + $(grep "^MIRI-RUN" "$f" | awk '{s+=$6} END {print s+0}')))
  ops=$((ops + $(grep "^MIRI-RUN" "$f" | awk '{s+=$8} END {print s+0}')))
  while read -r line; do
    [ -z "$line" ] && continue
    orc=$((orc + 1)); rc=1
    path=$(echo "$line" | grep -o '\[[^]]*\.json\]' | tr -d '[]')
    dst="$OUT/replays/$ID-miri-oracle-s$SEED-$(basename "$path")"; cp "$path" "$dst" 2>/dev/null
    oracle=$(echo "$line" | awk '{print $5}')
    echo "VIOLATION property=$ID replay=$dst oracle=$oracle (found by the event oracles in a run under Miri)"
  done < <(grep "^MIRI-ORACLE" "$f")
  if ! grep -q "^MIRI-DONE" "$f"; then
    # the interpreter stopped this process: undefined behaviour (or a harness failure)
    if grep -qE "^error: Undefined Behavior|^error: .*(unsupported|memory leaked|abnormal termination|deadlock)" "$f" || [ "$r" != 0 ]; then
      first=$(grep -m1 -E "^error" "$f" | cut -c1-300)
      stream=$(ls "$WORK"/$ID-i*.stream 2>/dev/null | head -1)
      # the stream file that belongs to this process: the index after its last completed run
      last=$(grep "^MIRI-RUN" "$f" | tail -1 | awk '{print $4}')
      wi=${w#w}; idx=$(( ${last:-$((wi * per - 1))} + 1 ))
      stream="$WORK/$ID-i$idx.stream"
      if [ -f "$stream" ] && [ -n "$first" ] && echo "$first" | grep -q "Undefined Behavior\|memory leaked"; then
        ub=$((ub + 1)); rc=1
        dst="$OUT/replays/$ID-miri-s$SEED-i$idx.json"
        "$VERIF/target/release/sim" stream2replay "$ID" "$SEED" "$idx" "$stream" "$dst" "$first" || { echo "harness error: stream2replay failed" >&2; exit 2; }
        cp "$f" "$OUT/replays/$ID-miri-s$SEED-i$idx.log"
        echo "VIOLATION property=$ID replay=$dst oracle=$ID.miri ($first)"
        detail="$first"
      else
        echo "harness error: a Miri process ended without a result ($w: ${first:-no error line})" >&2; tail -20 "$f" >&2; exit 2
      fi
    fi
  fi
done
t1=$(date +%s)
cat > "$FRAG" <<EOF
{"miri": {"runs": $done_runs, "requested": $RUNS, "processes": ${#pids[@]}, "events": $events, "client_ops": $ops, "undefined_behaviour_reports": $ub, "oracle_violations": $orc, "flags": "$MIRIFLAGS", "toolchain": "$(rustc +nightly --version 2>/dev/null)", "wall_s": $((t1 - t0)), "what": "free runs of the property's swarm shrunk to <= 16 events / <= 8 objects, executed by the Miri interpreter with symbolic alignment checking; the allocator seam is off (Miri tracks every allocation itself), the event oracles run; real code: gc-arena and gc-arena-derive as built from the tree under test"}}
EOF
rm -rf "$WORK"
echo "$ID miri tier: $done_runs runs ($events events, $ops client ops) in $((t1 - t0))s; undefined behaviour reports $ub; oracle violations $orc"
exit $rc
