#!/usr/bin/env python3
"""Regenerate /verif/mutants/*.patch: deliberately broken variants of kyren/gc-arena used to prove
that the checks bite (DESIGN.md section 8). Each mutant is a search/replace on the current /repo
HEAD, turned into a patch with `git diff` in a scratch worktree. Usage: make_mutants.py [scratch-dir]"""
import json, os, subprocess, sys, shutil

REPO = "/repo"
OUT = "/verif/mutants"
SCRATCH = sys.argv[1] if len(sys.argv) > 1 else "/root/scratch/mutgen"

# name, properties expected to catch it, file, old, new
M = [
 ("m01_backward_barrier_noop", ["C01", "C06"], "src/context.rs",
  """            fn barrier(this: &Context, parent: GcPtr) {
                this.make_gray_again(parent);
            }
            barrier(&self, parent);
        }
    }

    #[inline]
    fn backward_barrier_weak""",
  """            fn barrier(this: &Context, parent: GcPtr) {
                let _ = (this, parent);
            }
            barrier(&self, parent);
        }
    }

    #[inline]
    fn backward_barrier_weak"""),
 ("m02_root_barrier_noop", ["C01", "C06"], "src/context.rs",
  """        if self.phase == Phase::Mark {
            self.root_needs_trace = true;
        }""",
  """        if self.phase == Phase::Mark && false {
            self.root_needs_trace = true;
        }"""),
 ("m03_link_no_sweep_prev_fixup", ["C02", "C04", "C10"], "src/context.rs",
  """        if self.phase == Phase::Sweep && self.sweep_prev.get().is_none() {
            self.sweep_prev.set(self.all.get());
        }""",
  """"""),
 ("m04_sweep_leaves_black", ["C02"], "src/context.rs",
  """            GcColor::Black => {
                self.sweep_prev.set(Some(sweep));
                sweep_header.set_color(GcColor::White);""",
  """            GcColor::Black => {
                self.sweep_prev.set(Some(sweep));"""),
 ("m05_trace_weak_marks_black", ["C02", "C05"], "src/context.rs",
  """        if header.color() == GcColor::White {
            header.set_color(GcColor::WhiteWeak);
            self.metrics.mark_gc_marked(1);
        }""",
  """        if header.color() == GcColor::White {
            header.set_color(GcColor::Black);
            self.metrics.mark_gc_marked(1);
        }"""),
 ("m06_finalize_collects_after_callback", ["C03"], "src/arena.rs",
  """            let root: &'static Root<'_, R> = &*(&self.0.root as *const _);
            f(mc, root)
        }
    }

    /// Immediately transition the arena out of""",
  """            let root: &'static Root<'_, R> = &*(&self.0.root as *const _);
            let r = f(mc, root);
            self.0.context.do_collection(&self.0.root, RunUntil::PayDebt, Stop::Full);
            r
        }
    }

    /// Immediately transition the arena out of"""),
 ("m07_weak_arm_keeps_live_flag", ["C04", "C05"], "src/context.rs",
  """                if sweep_header.is_live() {
                    sweep_header.set_live(false);
                    // SAFETY: Since this object is white""",
  """                if sweep_header.is_live() {
                    // SAFETY: Since this object is white"""),
 ("m08_dropall_leaks_shells", ["C04"], "src/context.rs",
  """                            if header.is_live() {
                                gc_ptr.drop_in_place();
                                self.0.mark_gc_dropped(1);
                            }
                            gc_ptr.dealloc();
                            self.0.mark_gc_freed(1);""",
  """                            if header.is_live() {
                                gc_ptr.drop_in_place();
                                self.0.mark_gc_dropped(1);
                                gc_ptr.dealloc();
                            }
                            self.0.mark_gc_freed(1);"""),
 ("m09_upgrade_ignores_sweep", ["C05"], "src/context.rs",
  """        if self.phase == Phase::Sweep && header.color() == GcColor::WhiteWeak {
            return false;
        }
        true""",
  """        true"""),
 ("m10_upgrade_refuses_white_in_sweep", ["C05"], "src/context.rs",
  """        if self.phase == Phase::Sweep && header.color() == GcColor::WhiteWeak {
            return false;
        }
        true""",
  """        if self.phase == Phase::Sweep && header.color() != GcColor::Black {
            return false;
        }
        true"""),
 ("m11_trace_weak_noop", ["C05"], "src/context.rs",
  """        if header.color() == GcColor::White {
            header.set_color(GcColor::WhiteWeak);
            self.metrics.mark_gc_marked(1);
        }""",
  """        if header.color() == GcColor::White && false {
            header.set_color(GcColor::WhiteWeak);
            self.metrics.mark_gc_marked(1);
        }"""),
 ("m12_oncelock_set_no_barrier", ["C06"], "src/lock.rs",
  """        let result = self.cell.set(value);
        if result.is_ok() {
            mc.backward_barrier(Gc::erase(self), None);
        }
        result""",
  """        let result = self.cell.set(value);
        let _ = mc;
        result"""),
 ("m13_stash_no_barrier", ["C06", "C14"], "src/dynamic_roots.rs",
  """        mc.backward_barrier(Gc::erase(self.0), Some(Gc::erase(root)));
""",
  """        let _ = mc;
"""),
 ("m14_map_root_no_barrier", ["C06", "C01"], "src/arena.rs",
  """        R2: for<'a> Rootable<'a>,
        for<'a> Root<'a, R2>: Sized,
    {
        self.context.root_barrier();
        let new_root: Root<'static, R2> = unsafe {
            let mc: &'static Mutation<'_> = &*(self.context.mutation_context() as *const _);
            f(mc, self.root)
        };""",
  """        R2: for<'a> Rootable<'a>,
        for<'a> Root<'a, R2>: Sized,
    {
        let new_root: Root<'static, R2> = unsafe {
            let mc: &'static Mutation<'_> = &*(self.context.mutation_context() as *const _);
            f(mc, self.root)
        };"""),
 ("m15_backward_child_ignores_whiteweak", ["C06"], "src/context.rs",
  """                .map(|c| matches!(c.header().color(), GcColor::White | GcColor::WhiteWeak))
                .unwrap_or(true)""",
  """                .map(|c| matches!(c.header().color(), GcColor::White))
                .unwrap_or(true)"""),
 ("m16_forward_none_noop", ["C06"], "src/context.rs",
  """        if self.phase == Phase::Mark
            && parent
                .map(|p| p.header().color() == GcColor::Black)
                .unwrap_or(true)
        {
            // Outline the actual barrier code (which is somewhat expensive and won't be executed
            // often) to promote the inlining of the write barrier.
            #[cold]
            fn barrier(this: &Context, child: GcPtr) {
                this.trace(child);
            }""",
  """        if self.phase == Phase::Mark
            && parent
                .map(|p| p.header().color() == GcColor::Black)
                .unwrap_or(false)
        {
            // Outline the actual barrier code (which is somewhat expensive and won't be executed
            // often) to promote the inlining of the write barrier.
            #[cold]
            fn barrier(this: &Context, child: GcPtr) {
                this.trace(child);
            }"""),
 ("m17_resurrect_marks_black_untraced", ["C07"], "src/context.rs",
  """        if matches!(header.color(), GcColor::White | GcColor::WhiteWeak) {
            header.set_color(GcColor::Gray);
            self.gray.push(gc_ptr);""",
  """        if matches!(header.color(), GcColor::White | GcColor::WhiteWeak) {
            header.set_color(GcColor::Black);"""),
 ("m18_marked_arena_with_pending_work", ["C07", "C08"], "src/arena.rs",
  """                .do_collection(&self.root, RunUntil::PayDebt, Stop::FullyMarked);
        }

        if self.context.phase() == Phase::Mark && !self.context.gray_remaining() {""",
  """                .do_collection(&self.root, RunUntil::PayDebt, Stop::FullyMarked);
        }

        if self.context.phase() == Phase::Mark {"""),
 ("m19_cycle_debt_runs_full", ["C08"], "src/arena.rs",
  """                .do_collection(&self.root, RunUntil::PayDebt, Stop::FinishCycle);""",
  """                .do_collection(&self.root, RunUntil::PayDebt, Stop::Full);"""),
 ("m20_finish_cycle_noop_when_sleeping", ["C02"], "src/arena.rs",
  """    pub fn finish_cycle(&mut self) {
        unsafe {""",
  """    pub fn finish_cycle(&mut self) {
        if self.context.phase() == Phase::Sleep {
            return;
        }
        unsafe {"""),
 ("m21_rollover_keeps_marked_counter", ["C09"], "src/metrics.rs",
  """        self.0.marked_gcs.set(0);
        self.0.traced_gcs.set(0);""",
  """        self.0.traced_gcs.set(0);"""),
 ("m22_wakeup_ignores_min_sleep", ["C09"], "src/metrics.rs",
  """        let wakeup_amount =
            (remembered_count as f64 * pacing.sleep_factor).max(pacing.min_sleep as f64);""",
  """        let wakeup_amount = remembered_count as f64 * pacing.sleep_factor;"""),
 ("m23_freed_not_counted_for_shells", ["C10"], "src/context.rs",
  """                        sweep.drop_in_place();
                        self.metrics.mark_gc_dropped(1);
                    }
                    sweep.dealloc();
                    self.metrics.mark_gc_freed(1);""",
  """                        sweep.drop_in_place();
                        self.metrics.mark_gc_dropped(1);
                        self.metrics.mark_gc_freed(1);
                    }
                    sweep.dealloc();"""),
 ("m24_debt_not_clamped", ["C10"], "src/metrics.rs",
  """        (cycle_debits - cycle_credits).max(0.0)""",
  """        cycle_debits - cycle_credits"""),
 ("m25_trace_guard_removed", ["C11"], "src/context.rs",
  """            debug_assert!(gc_ptr.header().is_live());
            unsafe { gc_ptr.trace_value(guard.context) }
            mem::forget(guard);""",
  """            debug_assert!(gc_ptr.header().is_live());
            let context: *mut Context = guard.context;
            mem::forget(guard);
            unsafe { gc_ptr.trace_value(&mut *context) }"""),
 ("m26_root_flag_cleared_before_trace", ["C11"], "src/context.rs",
  """            root.trace(self);
            self.root_needs_trace = false;""",
  """            self.root_needs_trace = false;
            root.trace(self);"""),
 ("m27_contains_always_true", ["C14"], "src/dynamic_roots.rs",
  """        let theirs = Weak::as_ptr(&root.slots);
        ours == theirs""",
  """        let theirs = Weak::as_ptr(&root.slots);
        ours == theirs || !theirs.is_null()"""),
 ("m28_clone_does_not_count", ["C14"], "src/dynamic_roots.rs",
  """        if let Some(slots) = self.slots.upgrade() {
            slots.borrow_mut().inc(self.index);
        }
""",
  """"""),
 ("m29_slot_freed_at_count_one", ["C14"], "src/dynamic_roots.rs",
  """                if *ref_count == 0 {
                    *slot = Slot::Vacant {""",
  """                if *ref_count <= 1 {
                    *slot = Slot::Vacant {"""),
 ("m30_shared_metrics", ["C20"], "src/metrics.rs",
  """    pub(crate) fn new() -> Self {
        Self(Default::default())
    }""",
  """    pub(crate) fn new() -> Self {
        #[cfg(feature = "std")]
        {
            std::thread_local! { static SHARED: Metrics = Metrics(Default::default()); }
            return SHARED.with(|m| m.clone());
        }
        #[allow(unreachable_code)]
        Self(Default::default())
    }"""),
 ("m31_mark_credit_doubled", ["C09", "C10"], "src/context.rs",
  """                // Only marking the *first* time counts as a mark metric.
                if color == GcColor::White {
                    self.metrics.mark_gc_marked(1);
                }
            }
        }
    }

    #[inline]
    fn trace_weak""",
  """                // Only marking the *first* time counts as a mark metric.
                if color == GcColor::White {
                    self.metrics.mark_gc_marked(3);
                }
            }
        }
    }

    #[inline]
    fn trace_weak"""),
 ("m32_backward_weak_barrier_noop", ["C05", "C06"], "src/context.rs",
  """            && child.header().color() == GcColor::White
        {
            // Outline the actual barrier code (which is somewhat expensive and won't be executed
            // often) to promote the inlining of the write barrier.
            #[cold]
            fn barrier(this: &Context, parent: GcPtr) {
                this.make_gray_again(parent);
            }""",
  """            && child.header().color() == GcColor::White
        {
            // Outline the actual barrier code (which is somewhat expensive and won't be executed
            // often) to promote the inlining of the write barrier.
            #[cold]
            fn barrier(this: &Context, parent: GcPtr) {
                let _ = (this, parent);
            }"""),
 ("m33_get_or_init_no_barrier", ["C06"], "src/lock.rs",
  """        self.as_ref().cell.get_or_init(|| {
            mc.backward_barrier(Gc::erase(self), None);
            f()
        })""",
  """        self.as_ref().cell.get_or_init(|| {
            let _ = mc;
            f()
        })"""),
 ("m34_start_sweeping_finishes_cycle", ["C08"], "src/arena.rs",
  """                .do_collection(&self.0.root, RunUntil::Stop, Stop::AtSweep);
        }
        assert_eq!(self.0.context.phase(), Phase::Sweep);""",
  """                .do_collection(&self.0.root, RunUntil::Stop, Stop::FinishCycle);
        }"""),
 ("m35_collect_debt_stops_at_sleep", ["C09"], "src/arena.rs",
  """                .do_collection(&self.root, RunUntil::PayDebt, Stop::Full);""",
  """                .do_collection(&self.root, RunUntil::PayDebt, Stop::FinishCycle);"""),
 ("m37_thin_len_off_for_long_slices", ["C17"], "src/slice.rs",
  """    #[inline]
    fn from_thin(_type_meta: &M, ptr: *const (), len: usize) -> *const [E] {
        SliceWithHeader::<(), E>::ptr_from_thin(ptr, len) as *const [E]
    }""",
  """    #[inline]
    fn from_thin(_type_meta: &M, ptr: *const (), len: usize) -> *const [E] {
        SliceWithHeader::<(), E>::ptr_from_thin(ptr, if len > 15 { 15 } else { len }) as *const [E]
    }"""),
 ("m38_swh_layout_not_padded", ["C17"], "src/slice.rs",
  """        Some(header_layout.extend(array_layout).ok()?.0.pad_to_align())""",
  """        Some(header_layout.extend(array_layout).ok()?.0)"""),
 ("m39_builder_drop_runs_destructor", ["C18"], "src/slice.rs",
  """            let ptr = SliceWithHeader::<H, E>::ptr_from_thin(ptr, self.init_length);
            core::ptr::drop_in_place(ptr.cast_mut());""",
  """            let ptr = SliceWithHeader::<H, E>::ptr_from_thin(ptr, self.init_length + 1);
            core::ptr::drop_in_place(ptr.cast_mut());"""),
 ("m40_init_length_bumped_before_write", ["C18", "C11"], "src/slice.rs",
  """                element.write(create_element(i));
                self.init_length = i + 1;""",
  """                self.init_length = i + 1;
                element.write(create_element(i));"""),
 ("m41_builder_drop_leaks", ["C18"], "src/slice.rs",
  """            core::ptr::drop_in_place(ptr.cast_mut());

            ManuallyDrop::drop(&mut self.inner);""",
  """            core::ptr::drop_in_place(ptr.cast_mut());"""),
 ("m42_copy_slice_no_length_check", ["C18"], "src/slice.rs",
  """        assert!(elements.len() == len, "`elements` is not length {len}");
        unsafe {
            ptr::copy_nonoverlapping(
                elements.as_ptr(),
                self.slice_ptr() as *mut E,
                elements.len(),
            );""",
  """        unsafe {
            ptr::copy_nonoverlapping(
                elements.as_ptr(),
                self.slice_ptr() as *mut E,
                elements.len().min(len),
            );"""),
 ("m43_zst_cache_ignores_alignment", ["C19"], "src/zst_cache.rs",
  """        if mem::size_of::<T>() == 0 && mem::align_of::<T>() <= MAX_ALIGN {
            debug_assert!(Gc::as_ptr(self.cached_ptr).align_offset(mem::align_of::<T>()) == 0);""",
  """        if mem::size_of::<T>() == 0 {"""),
 ("m45_header_live_flag_in_wrong_bit", ["C05", "C04", "C01"], "src/gc_ptr.rs",
  """    pub(crate) fn set_live(&self, is_live: bool) {
        self.tagged_vtable
            .update(|p| tagged_ptr::set_bool::<0x8, _>(p, is_live));
    }""",
  """    pub(crate) fn set_live(&self, is_live: bool) {
        self.tagged_vtable
            .update(|p| tagged_ptr::set_bool::<0x4, _>(p, is_live));
    }"""),
 ("m46_mutate_root_no_barrier", ["C01", "C06"], "src/arena.rs",
  """        F: for<'gc> FnOnce(&'gc Mutation<'gc>, &'gc mut Root<'gc, R>) -> T,
    {
        self.context.root_barrier();""",
  """        F: for<'gc> FnOnce(&'gc Mutation<'gc>, &'gc mut Root<'gc, R>) -> T,
    {"""),
 ("m47_try_map_root_no_barrier", ["C06"], "src/arena.rs",
  """        R2: for<'a> Rootable<'a>,
        for<'a> Root<'a, R2>: Sized,
    {
        self.context.root_barrier();
        let new_root: Root<'static, R2> = unsafe {
            let mc: &'static Mutation<'_> = &*(self.context.mutation_context() as *const _);
            f(mc, self.root)?
        };""",
  """        R2: for<'a> Rootable<'a>,
        for<'a> Root<'a, R2>: Sized,
    {
        let new_root: Root<'static, R2> = unsafe {
            let mc: &'static Mutation<'_> = &*(self.context.mutation_context() as *const _);
            f(mc, self.root)?
        };"""),
 ("m49_sweep_skips_first_after_alloc", ["C02", "C04"], "src/context.rs",
  """                            cx.sweep = cx.all.get();""",
  """                            cx.sweep = cx.all.get().and_then(|p| if cx.metrics.total_gc_count() % 7 == 3 { p.header().next() } else { Some(p) });
                            if cx.sweep.is_some() && !cx.sweep.zip(cx.all.get()).is_some_and(|(a, b)| a.addr_eq(b)) {
                                cx.sweep_prev.set(cx.all.get());
                            }"""),
 ("m51_bounded_work_queue", ["C01", "C06"], "src/context.rs",
  """    fn push(&self, val: T) {
        unsafe {
            (*self.vec.get()).push(val);
        }
    }""",
  """    fn push(&self, val: T) {
        // keep the collector's work queues from growing without bound
        unsafe {
            let v = &mut *self.vec.get();
            if v.len() < (1 << 15) {
                v.push(val);
            }
        }
    }"""),
 ("m50_dynamic_root_drop_after_arena", ["C14"], "src/dynamic_roots.rs",
  """        if let Some(slots) = self.slots.upgrade() {
            slots.borrow_mut().dec(self.index);
        }
    }
}

impl<R: for<'gc> Rootable<'gc>> Clone for DynamicRoot<R> {""",
  """        let slots = self.slots.upgrade().expect("root set is gone");
        slots.borrow_mut().dec(self.index);
    }
}

impl<R: for<'gc> Rootable<'gc>> Clone for DynamicRoot<R> {"""),
]

def sh(*a, **k):
    return subprocess.run(a, check=True, capture_output=True, text=True, **k)

def main():
    os.makedirs(OUT, exist_ok=True)
    if os.path.exists(SCRATCH):
        subprocess.run(["git", "-C", REPO, "worktree", "remove", "--force", SCRATCH], capture_output=True)
        shutil.rmtree(SCRATCH, ignore_errors=True)
    sh("git", "-C", REPO, "worktree", "add", "-q", "--detach", SCRATCH, "HEAD")
    index = []
    try:
        for name, props, path, old, new in M:
            p = os.path.join(SCRATCH, path)
            s = open(p).read()
            if s.count(old) != 1:
                print(f"!! {name}: pattern found {s.count(old)} times in {path}", file=sys.stderr)
                continue
            open(p, "w").write(s.replace(old, new, 1))
            diff = sh("git", "-C", SCRATCH, "diff").stdout
            open(os.path.join(OUT, name + ".patch"), "w").write(diff)
            sh("git", "-C", SCRATCH, "checkout", "--", ".")
            index.append({"name": name, "expected": props, "file": path})
        json.dump(index, open(os.path.join(OUT, "index.json"), "w"), indent=1)
        print(f"{len(index)} mutants written to {OUT}")
    finally:
        subprocess.run(["git", "-C", REPO, "worktree", "remove", "--force", SCRATCH], capture_output=True)

main()
