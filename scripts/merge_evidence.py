#!/usr/bin/env python3
"""Merge the evidence of the two C10 build profiles into one file (second argument is rewritten)."""
import json, sys
a = json.load(open(sys.argv[1])); b = json.load(open(sys.argv[2]))
ca, cb = a["coverage"], b["coverage"]
out = b
out["coverage"] = dict(cb)
out["coverage"]["evaluations"] = ca["evaluations"] + cb["evaluations"]
# the two profiles run the same seeds: distinct cases are counted once
out["coverage"]["distinct_nontrivial"] = max(ca["distinct_nontrivial"], cb["distinct_nontrivial"])
out["coverage"]["profile"] = "checked (debug assertions + overflow checks) and plain release, same seeds"
out["coverage"]["per_profile"] = {"checked": {k: ca[k] for k in ("evaluations", "distinct_nontrivial", "totals", "violations_reported", "known_findings_met")},
                                   "plain": {k: cb[k] for k in ("evaluations", "distinct_nontrivial", "totals", "violations_reported", "known_findings_met")}}
out["wall_s"] = a["wall_s"] + b["wall_s"]
out["violations"] = a.get("violations", 0) + b.get("violations", 0)
json.dump(out, open(sys.argv[2], "w"), indent=1)
