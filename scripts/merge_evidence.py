#!/usr/bin/env python3
"""Merge evidence files into the second argument (rewritten).
   merge_evidence.py <checked.json> <plain.json>      the two build profiles of one check
   merge_evidence.py --probe <probe.json> <main.json> add the probe corpus part (C19)
   merge_evidence.py --miri <frag.json> <main.json>   add the Miri tier part (thorough tiers)"""
import json, sys
if sys.argv[1] == "--probe":
    a = json.load(open(sys.argv[2])); b = json.load(open(sys.argv[3]))
    b["coverage"]["conjuring_probes"] = a["coverage"]
    b["coverage"]["evaluations"] += a["coverage"]["evaluations"]
    b["wall_s"] += a["wall_s"]; b["violations"] = b.get("violations", 0) + a.get("violations", 0)
    json.dump(b, open(sys.argv[3], "w"), indent=1); sys.exit(0)
if sys.argv[1] == "--miri":
    a = json.load(open(sys.argv[2])); b = json.load(open(sys.argv[3]))
    m = a["miri"]
    b["coverage"]["miri"] = m
    b["coverage"]["evaluations"] += m["runs"]
    b["wall_s"] += m["wall_s"]; b["violations"] = b.get("violations", 0) + m["undefined_behaviour_reports"] + m["oracle_violations"]
    json.dump(b, open(sys.argv[3], "w"), indent=1); sys.exit(0)
a = json.load(open(sys.argv[1])); b = json.load(open(sys.argv[2]))
ca, cb = a["coverage"], b["coverage"]
out = a
out["coverage"] = dict(ca)
out["coverage"]["evaluations"] = ca["evaluations"] + cb["evaluations"]
# the plain profile re-runs a prefix of the same run indices: its cases are counted once, under "checked"
out["coverage"]["distinct_nontrivial"] = max(ca["distinct_nontrivial"], cb["distinct_nontrivial"])
out["coverage"]["profile"] = "checked (optimised, debug assertions + overflow checks) and plain release; plain re-runs the first half of the same run indices"
keys = ("evaluations", "distinct_nontrivial", "run_indices", "totals", "violations_reported", "known_findings_met", "runs_aborted_by_foreign_violation", "batch_digest", "worker_crashes")
out["coverage"]["per_profile"] = {"checked": {k: ca.get(k) for k in keys}, "plain": {k: cb.get(k) for k in keys}}
out["coverage"]["violations_reported"] = ca.get("violations_reported", []) + cb.get("violations_reported", [])
out["coverage"]["known_findings_met"] = sorted(set(ca.get("known_findings_met", []) + cb.get("known_findings_met", [])))
out["wall_s"] = a["wall_s"] + b["wall_s"]
out["violations"] = a.get("violations", 0) + b.get("violations", 0)
json.dump(out, open(sys.argv[2], "w"), indent=1)
