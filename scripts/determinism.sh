#!/usr/bin/env bash
# Determinism proof (DESIGN.md section 3): one seed is one exactly repeatable execution.
#  1. For every property configuration, N run indices are executed twice in fresh processes and
#     partitioned over 1, 4 and 16 processes; the per-index event-log digests must be identical
#     in all six executions (a digest covers every API result, phase, debt bits, count, destructor
#     and release event of the run, in order).
#  2. For every Free-shape property, M generated runs are replayed from their recorded traces with
#     no PRNG: digest, abstract signature, verdict and re-recorded trace must equal the generating run.
#  3. Both build profiles.
# Exit 0 if everything agrees, 2 (harness error) otherwise.
#   usage: scripts/determinism.sh [N] [M]        defaults: 2000 and 1000 (Prefix / fault shapes: N/20)
set -u
VERIF=$(cd "$(dirname "$0")/.." && pwd)
N=${1:-2000}; M=${2:-1000}
SEED=${VERIF_SEED:-1}
"$VERIF/check" build >/dev/null || exit 2
WORK=$(mktemp -d "$VERIF/target/determinism.XXXX")
trap 'rm -rf "$WORK"' EXIT
PROPS="C01 C02 C03 C04 C05 C06 C07 C08 C09 C10 C11 C14 C17 C18 C19 C20"
fail=0
for prof in release plain; do
  SIM="$VERIF/target/$prof/sim"
  for p in $PROPS; do
    n=$N; case $p in C02|C04|C11) n=$((N/20));; esac
    [ "$prof" = plain ] && n=$((n/4))
    for w in 1 4 16; do
      for rep in a b; do
        out="$WORK/$prof-$p-$w-$rep"
        per=$(( (n + w - 1) / w ))
        for i in $(seq 0 $((w-1))); do
          ( "$SIM" digest "$p" "$SEED" $((i*per)) "$per" > "$out.part$i" 2>/dev/null ) &
        done
        wait
        cat "$out".part* | sort -k2 -n | head -n "$n" > "$out"; rm -f "$out".part*
      done
    done
    ref="$WORK/$prof-$p-1-a"
    for f in "$WORK/$prof-$p"-*; do
      if ! cmp -s "$ref" "$f"; then echo "NONDETERMINISM: $prof $p: $(basename "$f") differs from 1-a: $(diff "$ref" "$f" | head -3 | tr '\n' ' ')"; fail=1; fi
    done
    echo "ok digests $prof $p: $n indices x {1,4,16} processes x 2 repetitions identical ($(wc -l < "$ref") lines)"
  done
  for p in C01 C03 C05 C06 C07 C08 C09 C10 C14 C17 C18 C19 C20; do
    m=$M; [ "$prof" = plain ] && m=$((M/4))
    per=$(( (m + 15) / 16 ))
    for i in $(seq 0 15); do ( "$SIM" selfreplay "$p" "$SEED" $((i*per)) "$per" > "$WORK/sr-$prof-$p-$i" 2>&1 ) & done; wait
    if grep -h MISMATCH "$WORK/sr-$prof-$p-"* | head -3 | grep -q .; then echo "REPLAY MISMATCH: $prof $p"; grep -h MISMATCH "$WORK/sr-$prof-$p-"* | head -3; fail=1; else echo "ok replay $prof $p: $m generated runs replay to the same digest, signature, verdict and trace"; fi
  done
done
[ $fail -eq 0 ] && echo "DETERMINISM: all digests and replays agree" && exit 0
echo "DETERMINISM: FAILED"; exit 2
