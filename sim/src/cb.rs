//! Callback bodies: what the simulated mutator does inside one `mutate` / `mutate_root` /
//! `map_root` / `try_map_root` / `finalize` / `new` callback. Each op is one real API use plus
//! the matching shadow update and the oracles that can be evaluated at that point.

use std::collections::{BTreeMap, BTreeSet};

use gc_arena::arena::CollectionPhase as Phase;
use gc_arena::{DynamicRootSet, Finalization, Gc, Mutation};

use crate::access::{self, Wrote};
use crate::ops::*;
use crate::payload::*;
use crate::seam;
use crate::shadow::*;
use crate::tok::{self, ZTok, ZTok16, Injected, Tok};
use crate::world::*;

/// What the generator may look at when it draws the next op of a callback.
pub struct CbView<'a> {
    pub sh: &'a Shadow,
    pub a: Aid,
    pub root_mutable: bool,
    pub finalize: bool,
    pub constructing: bool,
    pub phase: Phase,
    /// ids the callback holds real pointers to (reachable, fetched, upgraded, fresh)
    pub acc: Vec<Id>,
    /// ids allocated in this callback
    pub fresh: &'a BTreeSet<Id>,
    pub handles: Vec<(Hid, Aid, Id, u32)>,
    pub colors: &'a BTreeMap<Id, Col>,
    pub n_done: usize,
    /// a reachability-changing or marking op already ran in this callback
    pub mutated: bool,
    pub reach: &'a BTreeSet<Id>,
}

pub trait OpGen {
    fn next_op(&mut self, v: &CbView<'_>) -> Option<Op>;
}

pub type GenRef<'a> = Option<&'a mut (dyn OpGen + 'static)>;

pub enum Src<'a> {
    Replay { ops: &'a [Op], pos: usize },
    Gen { g: &'a mut (dyn OpGen + 'static), out: &'a mut Vec<Op> },
}

impl<'a> Src<'a> {
    fn next<'v>(&mut self, view: impl FnOnce() -> CbViewOwned<'v>) -> Option<Op> {
        match self {
            Src::Replay { ops, pos } => {
                let o = ops.get(*pos).cloned();
                *pos += 1;
                o
            }
            Src::Gen { g, out } => {
                let vo = view();
                let op = g.next_op(&vo.view());
                if let Some(o) = &op {
                    out.push(o.clone());
                }
                op
            }
        }
    }
}

/// Owned data behind a `CbView` (built only when generating).
pub struct CbViewOwned<'a> {
    pub sh: &'a Shadow,
    pub a: Aid,
    pub root_mutable: bool,
    pub finalize: bool,
    pub constructing: bool,
    pub phase: Phase,
    pub acc: Vec<Id>,
    pub fresh: &'a BTreeSet<Id>,
    pub handles: Vec<(Hid, Aid, Id, u32)>,
    pub colors: &'a BTreeMap<Id, Col>,
    pub n_done: usize,
    pub mutated: bool,
    pub reach: &'a BTreeSet<Id>,
}
impl<'a> CbViewOwned<'a> {
    fn view(&self) -> CbView<'_> {
        CbView {
            sh: self.sh,
            a: self.a,
            root_mutable: self.root_mutable,
            finalize: self.finalize,
            constructing: self.constructing,
            phase: self.phase,
            acc: self.acc.clone(),
            fresh: self.fresh,
            handles: self.handles.clone(),
            colors: self.colors,
            n_done: self.n_done,
            mutated: self.mutated,
            reach: self.reach,
        }
    }
}

pub enum RootRef<'r, 'gc> {
    Shared(&'r RootBody<'gc>),
    Mut(&'r mut RootBody<'gc>),
}
impl<'r, 'gc> RootRef<'r, 'gc> {
    pub fn get(&self) -> &RootBody<'gc> {
        match self {
            RootRef::Shared(r) => r,
            RootRef::Mut(r) => r,
        }
    }
    pub fn get_mut(&mut self) -> Option<&mut RootBody<'gc>> {
        match self {
            RootRef::Shared(_) => None,
            RootRef::Mut(r) => Some(r),
        }
    }
}

/// Result of one callback body, read by the executor after the API call returns.
#[derive(Default, Debug)]
pub struct CbReport {
    pub ops_done: usize,
    /// number of objects forward barriers turned from unmarked to marked (hook), for the C10
    /// known finding
    pub fw_marked: u64,
    /// forward-barrier ops executed (bound used when the hook is silent)
    pub fw_ops: u64,
    pub only_barriers: bool,
    pub resurrected_dead: bool,
    pub resurrect_ops: u64,
    /// a debt decrease inside the callback was attributed to the C10 known finding
    pub known_decrease: bool,
    /// an op other than a resurrection that may change reachability or marks ran
    pub mutated: bool,
    pub mutated_by_resurrect: bool,
    pub allocated: u64,
}

pub struct Cb<'w, 'r, 'gc> {
    pub w: &'w mut World,
    pub a: Aid,
    pub mc: &'gc Mutation<'gc>,
    pub fc: Option<&'gc Finalization<'gc>>,
    pub root: RootRef<'r, 'gc>,
    pub map: BTreeMap<Id, AnyGc<'gc>>,
    pub fresh: BTreeSet<Id>,
    pub phase: Phase,
    pub constructing: bool,
    pub colors: BTreeMap<Id, Col>,
    /// what the last Resurrect op may have been credited: one marking if its target carried no
    /// mark of this cycle (or its colour is unknown), nothing otherwise
    pub res_allow: f64,
    pub reach0: BTreeSet<Id>,
    pub clean0: bool,
    pub rep: CbReport,
}

impl<'w, 'r, 'gc> Cb<'w, 'r, 'gc> {
    fn viol(&mut self, oracle: &str, detail: String) {
        self.w.violate(oracle, detail);
    }

    fn destructed(&self, id: Id) -> bool {
        self.w.sh.objs.get(&id).is_some_and(|o| o.toks.iter().any(|t| tok::drops(*t) > 0) || (o.toks.is_empty() && o.released))
    }
    fn released(&self, id: Id) -> bool {
        match self.w.sh.objs.get(&id) {
            Some(o) => o.released || o.block.is_some_and(|b| seam::active() && !seam::block(b).live),
            None => true,
        }
    }

    fn refresh_colors(&mut self) {
        if self.w.cfg.coverage {
            let snap = self.mc.verif_snapshot();
            self.colors = self.w.colors_of(&snap);
        }
    }
    fn color(&self, id: Id) -> u8 {
        self.colors.get(&id).map(|c| c.color).unwrap_or(9)
    }
    fn color_name(c: u8) -> &'static str {
        match c {
            0 => "white",
            1 => "whiteweak",
            2 => "gray",
            3 => "black",
            _ => "na",
        }
    }

    fn set_for(&self, s: SetRef) -> Option<DynamicRootSet<'gc>> {
        match s {
            SetRef::Root => self.root.get().set,
            SetRef::Holder(h) => self.map.get(&h).and_then(|a| access::set_of(*a)),
        }
    }

    /// Check one object the callback is about to touch: it must be what the shadow says it is.
    /// Returns false (after recording the violation) if it must not be touched.
    fn check_object(&mut self, id: Id, any: AnyGc<'gc>, why: &str) -> bool {
        let Some(o) = self.w.sh.objs.get(&id) else {
            self.viol("H.shadow", format!("{why}: object {id} unknown to the shadow"));
            return false;
        };
        let (kind, addr, has_tok) = (o.kind, o.addr, !o.toks.is_empty());
        if self.released(id) {
            self.viol("C01.read", format!("{why}: object {id} is reachable but its block has been released"));
            return false;
        }
        if has_tok && self.destructed(id) {
            self.viol("C01.read", format!("{why}: object {id} is reachable but its value has been destructed"));
            return false;
        }
        if any.addr() != addr {
            let o = if matches!(kind, Kind::Lay { .. }) { "C17.moved" } else { "C01.read" };
            self.viol(o, format!("{why}: pointer to {id} has a different address than at allocation"));
            return false;
        }
        let real_kind = access::kind_of(any);
        let opaque = matches!(kind, Kind::Lay { .. } | Kind::Built { .. } | Kind::ZstShared);
        if (opaque && !matches!(access::canon(any), AnyGc::Opaque(_))) || (!opaque && real_kind != kind) {
            self.viol("C01.read", format!("{why}: pointer to {id} has kind {real_kind:?}, expected {kind:?}"));
            return false;
        }
        if opaque {
            if let Err((o, e)) = self.check_opaque(id, any.erase()) {
                self.viol(o, format!("{why}: object {id} ({kind:?}): {e}"));
                return false;
            }
        }
        if let Some(sid) = access::stored_id(any) {
            if sid != id {
                self.viol("C01.read", format!("{why}: object {id} reads back id {sid}"));
                return false;
            }
        }
        true
    }

    /// Lock-step traversal of the real graph from the root (and through every live handle whose
    /// set is reachable) against the shadow graph. Fills `map` with real pointers.
    pub fn read_all(&mut self, why: &str) {
        let a = self.a;
        let mut stack: Vec<(Id, AnyGc<'gc>)> = vec![];
        {
            let ar = self.w.sh.arena(a).clone();
            let root = self.root.get();
            for k in 0..ROOT_STRONG {
                match (root.slots[k], ar.root_strong[k]) {
                    (Some(g), Some(id)) => stack.push((id, g)),
                    (None, None) => {}
                    (r, s) => {
                        let (r, s) = (r.is_some(), s);
                        self.viol("C01.read", format!("{why}: root slot {k}: real is_some={r}, shadow {s:?}"));
                        return;
                    }
                }
            }
            for k in 0..ROOT_WEAK {
                match (root.weak[k], ar.root_weak[k]) {
                    (Some(wk), Some(id)) => {
                        if self.w.sh.objs.get(&id).map(|o| o.addr) != Some(wk.addr()) {
                            self.viol("C01.read", format!("{why}: root weak slot {k} does not point at {id}"));
                            return;
                        }
                    }
                    (None, None) => {}
                    (r, s) => {
                        let r = r.is_some();
                        self.viol("C01.read", format!("{why}: root weak slot {k}: real is_some={r}, shadow {s:?}"));
                        return;
                    }
                }
            }
        }
        let mut sets: Vec<(Id, DynamicRootSet<'gc>)> = self.root.get().set.map(|s| (self.w.sh.arena(a).root_set_inner, s)).into_iter().collect();
        let mut seen: BTreeSet<Id> = BTreeSet::new();
        loop {
            while let Some((id, any)) = stack.pop() {
                if !self.w.ok() {
                    return;
                }
                if seen.contains(&id) {
                    if self.map.get(&id).map(|m| m.addr()) != Some(any.addr()) {
                        self.viol("C01.read", format!("{why}: two paths to {id} give different pointers"));
                    }
                    continue;
                }
                if !self.check_object(id, any, why) {
                    return;
                }
                seen.insert(id);
                self.map.insert(id, access::canon(any));
                let o = self.w.sh.objs[&id].clone();
                if o.kind == Kind::SetHolder {
                    if let (Some(inner), Some(set)) = (o.strong[0], access::set_of(any)) {
                        sets.push((inner, set));
                    }
                    continue;
                }
                if o.leaked {
                    // nothing can be read through this lock any more: the client cannot follow
                    // its edge (the collector must: C07 / C01 watch the child through the shadow)
                    continue;
                }
                for k in 0..o.kind.n_strong() {
                    match (access::read_strong(any, k), o.strong[k]) {
                        (Some(c), Some(cid)) => stack.push((cid, c)),
                        (None, None) => {}
                        (r, s) => {
                            let r = r.is_some();
                            self.viol("C01.read", format!("{why}: {id}.strong[{k}]: real is_some={r}, shadow {s:?}"));
                            return;
                        }
                    }
                }
                for k in 0..o.kind.n_weak() {
                    match (access::read_weak(any, k), o.weak[k]) {
                        (Some(wk), Some(t)) => {
                            if self.w.sh.objs.get(&t).map(|o| o.addr) != Some(wk.addr()) {
                                self.viol("C01.read", format!("{why}: {id}.weak[{k}] does not point at {t}"));
                                return;
                            }
                        }
                        (None, None) => {}
                        (r, s) => {
                            let r = r.is_some();
                            self.viol("C01.read", format!("{why}: {id}.weak[{k}]: real is_some={r}, shadow {s:?}"));
                            return;
                        }
                    }
                }
            }
            // fetch through every live handle of a set we can reach
            let Some((inner, set)) = sets.pop() else { break };
            if self.w.sh.objs.get(&inner).is_some_and(|o| o.released) || self.released(inner) {
                self.viol("C14.stashed-lost", format!("{why}: the object behind a reachable DynamicRootSet ({inner}) has been released"));
                return;
            }
            seen.insert(inner);
            let hs: Vec<(Hid, Id)> = self.w.handles.iter().filter(|(_, h)| self.w.sh.groups[&h.group].inner == inner).map(|(k, h)| (*k, h.obj)).collect();
            for (hid, obj) in hs {
                // the stashed object must be intact before we let fetch hand us a pointer to it
                if self.destructed(obj) || self.released(obj) {
                    self.viol("C14.stashed-lost", format!("{why}: object {obj} is stashed (handle {hid}) but has been destructed or released"));
                    return;
                }
                let h = &self.w.handles[&hid];
                let any = match &h.real {
                    RealHandle::Node(nh) => AnyGc::Node(set.fetch(nh)),
                    RealHandle::Field(fh) => AnyGc::Field(set.fetch(fh)),
                };
                if self.w.sh.objs.get(&obj).map(|o| o.addr) != Some(any.addr()) {
                    self.viol("C14.fetch-identity", format!("{why}: fetch through handle {hid} did not return the stashed object {obj}"));
                    return;
                }
                stack.push((obj, any));
            }
        }
    }

    /// Every pointer the callback obtained must still be valid when it ends (C03).
    pub fn revalidate(&mut self) {
        let items: Vec<(Id, AnyGc<'gc>)> = self.map.iter().map(|(k, v)| (*k, *v)).collect();
        for (id, any) in items {
            if self.released(id) {
                self.viol("C03.stale", format!("pointer to {id} obtained during the callback: block released before the callback ended"));
                return;
            }
            if self.destructed(id) {
                self.viol("C03.stale", format!("pointer to {id} obtained during the callback: value destructed before the callback ended"));
                return;
            }
            if let Some(sid) = access::stored_id(any) {
                if sid != id {
                    self.viol("C03.stale", format!("pointer to {id} obtained during the callback reads id {sid} at its end"));
                    return;
                }
            }
        }
    }

    fn view_owned(&self) -> CbViewOwned<'_> {
        CbViewOwned {
            sh: &self.w.sh,
            a: self.a,
            root_mutable: matches!(self.root, RootRef::Mut(_)),
            finalize: self.fc.is_some(),
            constructing: self.constructing,
            phase: self.phase,
            acc: self.map.keys().copied().collect(),
            fresh: &self.fresh,
            handles: self.w.handles.iter().map(|(k, h)| (*k, h.arena, h.obj, h.group)).collect(),
            colors: &self.colors,
            n_done: self.rep.ops_done,
            mutated: self.rep.mutated || self.rep.mutated_by_resurrect,
            reach: &self.reach0,
        }
    }

    /// Run the whole body: ReadAll, ops from `src`, ReadAll, revalidation.
    pub fn run(&mut self, src: &mut Src<'_>) {
        let _p = seam::pause();
        self.rep.only_barriers = true;
        if !self.constructing {
            self.read_all("callback start");
        }
        self.refresh_colors();
        while self.w.ok() {
            let op = {
                let me: &Cb<'w, 'r, 'gc> = self;
                src.next(|| me.view_owned())
            };
            let Some(op) = op else { break };
            if self.w.stream.is_some() {
                let j = serde_json::to_string(&op).unwrap_or_default();
                self.w.stream_line('O', j);
            }
            self.exec_op(&op);
            self.rep.ops_done += 1;
        }
        if self.w.ok() {
            // a second traversal from scratch, then every pointer held
            let held = std::mem::take(&mut self.map);
            self.read_all("callback end");
            for (k, v) in held {
                self.map.entry(k).or_insert(v);
            }
        }
        if self.w.ok() {
            self.revalidate();
        }
    }

    fn skip(&mut self) {
        self.w.stats.ops_skipped += 1;
    }

    fn note_mutation(&mut self) {
        self.rep.mutated = true;
        self.rep.only_barriers = false;
        let rt = &mut self.w.rt[self.a as usize];
        rt.clean_since_wake = false;
        rt.dead_set = None;
        if self.phase != Phase::Sleeping {
            self.w.stats.flag("C01.mutation-mid-cycle");
        }
    }

    fn note_adoption(&mut self, child: Id) {
        if matches!(self.phase, Phase::Marking | Phase::Marked) {
            self.w.rt[self.a as usize].adopted_cur.insert(child);
        }
    }

    fn holder_any(&self, h: Holder) -> Option<Option<AnyGc<'gc>>> {
        match h {
            Holder::Root => Some(None),
            Holder::Obj(i) => self.map.get(&i).map(|a| Some(*a)),
        }
    }

    fn cover_write(&mut self, what: &str, parent: Option<Id>, child: Option<Id>) {
        if !self.w.cfg.coverage {
            return;
        }
        let pc = parent.map(|p| Self::color_name(self.color(p))).unwrap_or("root");
        let cc = match child {
            Some(c) if self.fresh.contains(&c) => "fresh",
            Some(c) => Self::color_name(self.color(c)),
            None => "none",
        };
        let name = format!("{what}|{}|{pc}|{cc}", phase_name(self.phase));
        self.w.sigmix(crate::rng::fnv(name.as_bytes()));
        self.w.stats.cell(name);
        if matches!(self.phase, Phase::Marking | Phase::Marked) && pc == "black" && child.is_some() {
            self.w.stats.flag("C06.adopt-into-marked");
        }
    }

    /// Count children a forward barrier turned from unmarked to marked (C10 known finding).
    fn forward_mark_probe(&mut self, child: Id, f: impl FnOnce(&mut Self)) {
        self.rep.fw_ops += 1;
        let addr = self.w.sh.objs.get(&child).map(|o| o.addr);
        let color_of = |me: &Self| {
            let snap = me.mc.verif_snapshot();
            snap.objects.iter().find(|o| Some(o.addr) == addr).map(|o| o.color).unwrap_or(9)
        };
        let before = color_of(self);
        f(self);
        let after = color_of(self);
        if before == 0 && after != 0 {
            self.rep.fw_marked += 1;
        }
        if self.w.cfg.coverage {
            self.refresh_colors();
        }
    }

    /// Execute one op and attribute any decrease of the allocation debt to it (C10).
    pub fn exec_op(&mut self, op: &Op) {
        let d0 = self.mc.metrics().allocation_debt();
        let fw0 = self.rep.fw_marked;
        self.exec_op_inner(op);
        if !self.w.ok() {
            return;
        }
        let d1 = self.mc.metrics().allocation_debt();
        if d1 < d0 {
            let marked = self.rep.fw_marked - fw0;
            let mf = self.w.sh.arena(self.a).pacing.mark;
            let expect = (d0 - mf * marked as f64).max(0.0);
            let tol = 1e-9 * (1.0 + d0.abs());
            if matches!(op, Op::Resurrect { .. }) {
                // resurrection is marking work done by the finalizer: collection work, not mutation.
                // It is worth one marking, and only of an object that was not marked before (a
                // weakly marked one was counted when the weak pointer to it was traced)
                if d0 - d1 > self.res_allow + 1e-9 * (1.0 + d0.abs()) {
                    self.viol("C10.decrease", format!("allocation_debt went from {d0} to {d1} across {op:?}: the marking work a resurrection does is worth at most {} here (mark_factor {mf})", self.res_allow));
                }
            } else if marked > 0 && (d1 - expect).abs() <= tol {
                // KNOWN FINDING: forward barriers mark the child at once and that marking is
                // credited like any other (DESIGN 6.4); identified by call site and exact amount
                self.w.known.insert(("C10".into(), "forward-barrier-pays-debt".into()));
                self.w.stats.known_c10_fw += 1;
                self.rep.known_decrease = true;
            } else {
                self.viol("C10.decrease", format!("allocation_debt went from {d0} to {d1} across {op:?} (forward barriers marked {marked} objects, mark_factor {mf})"));
            }
        }
    }

    fn exec_op_inner(&mut self, op: &Op) {
        self.w.stats.ops += 1;
        let a = self.a;
        let mc = self.mc;
        match op {
            Op::Alloc { id, kind } => {
                let n_ids = kind.ids_used();
                let bad_kind = match kind {
                    Kind::SetInner | Kind::Built { .. } | Kind::ZstShared => true,
                    Kind::Lay { t, len } => *t as usize >= crate::lay::LAYS.len() || *len as usize > crate::lay::MAX_LEN,
                    Kind::Slice { len } | Kind::Swh { len } | Kind::SwhPod { len } => *len > 8,
                    // made by AllocCopy only
                    Kind::CopySlice { .. } | Kind::CopySwh { .. } | Kind::SetInner | Kind::Built { .. } | Kind::ZstShared => true,
                    _ => false,
                };
                if bad_kind || (0..n_ids).any(|d| self.w.sh.objs.contains_key(&(id + d))) || tok::drops(*id) > 0 {
                    return self.skip();
                }
                self.alloc(*id, *kind);
                self.rep.only_barriers = false;
            }
            Op::Burst { first, n } => {
                for d in 0..*n as u32 {
                    let id = first + d;
                    if self.w.sh.objs.contains_key(&id) {
                        continue;
                    }
                    self.alloc(id, Kind::LeafLock);
                    self.map.remove(&id);
                    self.fresh.remove(&id);
                }
                self.rep.only_barriers = false;
                self.w.stats.flag("C03.burst");
            }
            Op::Link { holder, slot, child, route, conv } => {
                let (Some(hany), Some(cany)) = (self.holder_any(*holder), self.map.get(child).copied()) else { return self.skip() };
                let slot = *slot as usize;
                // what is stored is the converted representation only (C19)
                let (cany, cerr) = access::convert(mc, cany, *conv);
                if let Some(e) = cerr {
                    self.viol("C19.ptr-eq", format!("converting the pointer to {child}: {e}"));
                    return;
                }
                let converted = std::mem::discriminant(&cany) != std::mem::discriminant(&access::canon(cany));
                if converted {
                    self.w.stats.flag("C19.converted-edge-stored");
                }
                if *conv != Conv::None {
                    self.w.stats.cell(format!("conv|{conv:?}|{}", phase_name(self.phase)));
                }
                match hany {
                    None => {
                        if slot >= ROOT_STRONG {
                            return self.skip();
                        }
                        let Some(r) = self.root.get_mut() else { return self.skip() };
                        r.slots[slot] = Some(cany);
                        self.cover_write("root-write", None, Some(*child));
                        self.w.sh.set_strong(a, Holder::Root, slot, Some(*child));
                        self.note_mutation();
                        self.note_adoption(*child);
                    }
                    Some(pany) => {
                        let Holder::Obj(pid) = *holder else { unreachable!() };
                        let kind = access::kind_of(pany);
                        if slot >= kind.writable_strong() {
                            return self.skip();
                        }
                        let what = format!("link:{kind:?}:{}", route_label(kind, slot, *route));
                        self.cover_write(&what, Some(pid), Some(*child));
                        let wrote = if access::is_forward_route(kind, *route) {
                            let mut res = Wrote::Refused;
                            self.forward_mark_probe(*child, |me| {
                                res = access::write_strong(me.mc, pany, pid, slot, *route, Some(cany));
                            });
                            res
                        } else {
                            access::write_strong(mc, pany, pid, slot, *route, Some(cany))
                        };
                        let was = self.w.sh.objs[&pid].strong[slot];
                        match wrote {
                            Wrote::Done => {
                                if (kind == Kind::Once || (kind == Kind::Field && slot == FIELD_ONCE_SLOT)) && was.is_some() {
                                    self.viol("H.once", format!("set-once slot of {pid} accepted a second value"));
                                }
                                self.w.sh.set_strong(a, *holder, slot, Some(*child));
                                if let Some(o) = self.w.sh.objs.get_mut(&pid) {
                                    if o.conv.len() <= slot {
                                        o.conv.resize(slot + 1, Conv::None);
                                    }
                                    o.conv[slot] = if converted { *conv } else { Conv::None };
                                }
                                self.note_mutation();
                                self.note_adoption(*child);
                            }
                            Wrote::Refused => {
                                self.rep.only_barriers = false;
                            }
                        }
                    }
                }
            }
            Op::Unlink { holder, slot, route } => {
                let Some(hany) = self.holder_any(*holder) else { return self.skip() };
                let slot = *slot as usize;
                match hany {
                    None => {
                        if slot >= ROOT_STRONG {
                            return self.skip();
                        }
                        let Some(r) = self.root.get_mut() else { return self.skip() };
                        r.slots[slot] = None;
                        self.w.sh.set_strong(a, Holder::Root, slot, None);
                        self.note_mutation();
                    }
                    Some(pany) => {
                        let Holder::Obj(pid) = *holder else { unreachable!() };
                        let kind = access::kind_of(pany);
                        if slot >= kind.writable_strong() || kind == Kind::Once || (kind == Kind::Field && slot == FIELD_ONCE_SLOT) {
                            return self.skip();
                        }
                        if access::write_strong(mc, pany, pid, slot, *route, None) == Wrote::Done {
                            self.w.sh.set_strong(a, *holder, slot, None);
                            self.note_mutation();
                        }
                    }
                }
            }
            Op::LinkWeak { holder, slot, child, route, conv } => {
                let (Some(hany), Some(cany)) = (self.holder_any(*holder), self.map.get(child).copied()) else { return self.skip() };
                let slot = *slot as usize;
                let (wk, werr) = access::convert_weak(cany, *conv);
                if let Some(e) = werr {
                    self.viol("C19.ptr-eq", format!("converting the weak pointer to {child}: {e}"));
                    return;
                }
                if *conv != Conv::None {
                    self.w.stats.cell(format!("wconv|{conv:?}|{}", phase_name(self.phase)));
                }
                match hany {
                    None => {
                        if slot >= ROOT_WEAK {
                            return self.skip();
                        }
                        let Some(r) = self.root.get_mut() else { return self.skip() };
                        r.weak[slot] = Some(wk);
                        self.cover_write("root-write-weak", None, Some(*child));
                        self.w.sh.set_weak(a, Holder::Root, slot, Some(*child));
                        if matches!(self.phase, Phase::Marking | Phase::Marked) {
                            self.w.rt[a as usize].adopted_weak_cur.insert(*child);
                        }
                        self.rep.mutated = true;
                        self.rep.only_barriers = false;
                    }
                    Some(pany) => {
                        let Holder::Obj(pid) = *holder else { unreachable!() };
                        let kind = access::kind_of(pany);
                        if slot >= kind.n_weak() {
                            return self.skip();
                        }
                        let what = format!("linkweak:{kind:?}:{}", route_label(kind, 100 + slot, *route));
                        self.cover_write(&what, Some(pid), Some(*child));
                        let wrote = if access::is_forward_route(kind, *route) {
                            let mut res = Wrote::Refused;
                            self.forward_mark_probe(*child, |me| {
                                res = access::write_weak(me.mc, pany, slot, *route, Some(wk));
                            });
                            res
                        } else {
                            access::write_weak(mc, pany, slot, *route, Some(wk))
                        };
                        if wrote == Wrote::Done {
                            self.w.sh.set_weak(a, *holder, slot, Some(*child));
                            if matches!(self.phase, Phase::Marking | Phase::Marked) {
                                self.w.rt[a as usize].adopted_weak_cur.insert(*child);
                            }
                        }
                        // a weak edge does not change strong reachability, but barriers may mark
                        self.rep.mutated = true;
                        self.rep.only_barriers = false;
                        self.w.rt[a as usize].dead_set = None;
                    }
                }
            }
            Op::UnlinkWeak { holder, slot, route } => {
                let Some(hany) = self.holder_any(*holder) else { return self.skip() };
                let slot = *slot as usize;
                match hany {
                    None => {
                        if slot >= ROOT_WEAK {
                            return self.skip();
                        }
                        let Some(r) = self.root.get_mut() else { return self.skip() };
                        r.weak[slot] = None;
                        self.w.sh.set_weak(a, Holder::Root, slot, None);
                    }
                    Some(pany) => {
                        let kind = access::kind_of(pany);
                        if slot >= kind.n_weak() {
                            return self.skip();
                        }
                        if access::write_weak(mc, pany, slot, *route, None) == Wrote::Done {
                            self.w.sh.set_weak(a, *holder, slot, None);
                        }
                    }
                }
                self.rep.mutated = true;
                self.rep.only_barriers = false;
                self.w.rt[a as usize].dead_set = None;
            }
            Op::Upgrade { holder, slot, then } => self.op_upgrade(*holder, *slot as usize, Some(*then)),
            Op::IsDropped { holder, slot } => self.op_upgrade(*holder, *slot as usize, None),
            Op::Stash { set, obj, handle } => {
                let (Some(s), Some(oany)) = (self.set_for(*set), self.map.get(obj).copied()) else { return self.skip() };
                let Some(inner) = self.w.sh.set_inner(a, *set) else { return self.skip() };
                if self.w.handles.contains_key(handle) || self.w.sh.groups.values().any(|_| false) {
                    return self.skip();
                }
                // stash never panics on a sound tree (an injected fault cannot fire inside it: it
                // traces nothing), so a panic here is the slot table's
                let stashed = std::panic::catch_unwind(std::panic::AssertUnwindSafe(|| match oany {
                    AnyGc::Node(g) => {
                        let _t = seam::track();
                        Some(RealHandle::Node(s.stash::<NodeRootable>(mc, g)))
                    }
                    AnyGc::Field(g) => {
                        let _t = seam::track();
                        Some(RealHandle::Field(s.stash::<FieldRootable>(mc, g)))
                    }
                    _ => None,
                }));
                let real = match stashed {
                    Ok(Some(r)) => r,
                    Ok(None) => return self.skip(),
                    Err(p) => {
                        let m = panic_message(&p);
                        self.w.violate_with("C14.panic", &["C10.panic"], format!("DynamicRootSet::stash of {obj} panicked: {m}"));
                        return;
                    }
                };
                self.cover_write("stash", Some(inner), Some(*obj));
                if self.w.sh.groups.values().any(|g| g.inner == inner && g.count == 0) {
                    // a slot of this set has been freed before: this stash reuses it
                    self.w.stats.flag("C14.slot-reuse");
                }
                let group = self.w.sh.add_group(inner, *obj);
                self.w.sh.handles.insert(*handle, group);
                self.w.sh.next_hid = self.w.sh.next_hid.max(handle + 1);
                self.w.handles.insert(*handle, HandleState { real, group, arena: a, obj: *obj });
                self.w.stats.stashes += 1;
                self.note_adoption(*obj);
                if self.phase != Phase::Sleeping {
                    self.w.stats.flag("C14.handle-op-mid-cycle");
                }
                self.note_mutation();
            }
            Op::Probe { handle, set } => {
                let Some(s) = self.set_for(*set) else { return self.skip() };
                let Some(inner) = self.w.sh.set_inner(a, *set) else { return self.skip() };
                let Some(h) = self.w.handles.get(handle) else { return self.skip() };
                let group = self.w.sh.groups[&h.group].clone();
                let expected = group.inner == inner && h.arena == a;
                let obj = h.obj;
                self.w.stats.probes += 1;
                if !expected {
                    self.w.stats.foreign_probes += 1;
                    self.w.stats.flag("C14.foreign");
                }
                // a handle we expect to resolve must resolve to an intact object
                if expected && (self.destructed(obj) || self.released(obj)) {
                    self.viol("C14.stashed-lost", format!("object {obj} is stashed (handle {handle}) but has been destructed or released"));
                    return;
                }
                let h = &self.w.handles[handle];
                let (contains, tf, fetched): (bool, Option<usize>, Result<usize, String>) = match &h.real {
                    RealHandle::Node(nh) => (
                        s.contains(nh),
                        s.try_fetch(nh).ok().map(|g| Gc::as_ptr(g) as *const () as usize),
                        std::panic::catch_unwind(std::panic::AssertUnwindSafe(|| Gc::as_ptr(s.fetch(nh)) as *const () as usize)).map_err(|p| panic_message(&p)),
                    ),
                    RealHandle::Field(fh) => (
                        s.contains(fh),
                        s.try_fetch(fh).ok().map(|g| Gc::as_ptr(g) as *const () as usize),
                        std::panic::catch_unwind(std::panic::AssertUnwindSafe(|| Gc::as_ptr(s.fetch(fh)) as *const () as usize)).map_err(|p| panic_message(&p)),
                    ),
                };
                let addr = self.w.sh.objs.get(&obj).map(|o| o.addr);
                // a handle of another (possibly destroyed) arena that is accepted here is also a
                // breach of arena independence
                let other_arena = self.w.handles[handle].arena != a;
                let al: &[&str] = if other_arena && !expected { &["C20.foreign-handle"] } else { &[] };
                if contains != expected {
                    self.w.violate_with("C14.foreign", al, format!("contains(handle {handle}) = {contains}, expected {expected}"));
                } else if tf.is_some() != expected {
                    self.w.violate_with("C14.foreign", al, format!("try_fetch(handle {handle}).is_ok() = {}, expected {expected}", tf.is_some()));
                } else if fetched.is_ok() != expected {
                    self.w.violate_with("C14.foreign", al, format!("fetch(handle {handle}) returned={}, expected to {}", fetched.is_ok(), if expected { "return" } else { "panic" }));
                } else if expected && (tf != addr || fetched.as_ref().ok().copied() != addr) {
                    self.viol("C14.fetch-identity", format!("fetch / try_fetch through handle {handle} did not return the stashed object {obj}"));
                } else if let Err(m) = &fetched {
                    if !m.contains("mismatched root set") {
                        self.viol("C14.foreign", format!("fetch of a foreign handle panicked with an undocumented message: {m}"));
                    }
                }
            }
            Op::BarrierOnly { form, parent, child } => self.op_barrier_only(*form, *parent, *child),
            Op::LeakGuard { obj } => {
                let Some(AnyGc::Leaky(g)) = self.map.get(obj).copied().map(access::canon) else { return self.skip() };
                if self.w.sh.objs.get(obj).is_none_or(|o| o.leaked) {
                    return self.skip();
                }
                // safe code: take the write guard (a backward barrier) and never give it back
                std::mem::forget(g.borrow_mut(mc));
                crate::tok::note_leaked_guard();
                self.w.sh.objs.get_mut(obj).unwrap().leaked = true;
                self.w.rt[a as usize].leaked_guard = true;
                self.w.stats.flag("C07.guard-leaked");
                self.note_mutation();
            }
            Op::IsDead { holder, slot, weak } => self.op_is_dead(*holder, *slot as usize, *weak),
            Op::Resurrect { holder, slot, weak } => self.op_resurrect(*holder, *slot as usize, *weak),
            Op::Panic => {
                self.w.stats.callback_panics += 1;
                std::panic::panic_any(Injected);
            }
            Op::Builder { first, kind, n, stage } => self.op_builder(*first, *kind, *n as usize, *stage),
            Op::Convert { obj, chain } => {
                let Some(any) = self.map.get(obj).copied() else { return self.skip() };
                let want = access::stored_id(any);
                let mut cur = any;
                for c in chain {
                    let (next, err) = access::convert(mc, cur, *c);
                    if let Some(e) = err {
                        self.viol("C19.ptr-eq", format!("conversion chain on {obj}, step {c:?}: {e}"));
                        return;
                    }
                    if next.addr() != any.addr() {
                        self.viol("C19.ptr-eq", format!("conversion chain on {obj}, step {c:?}: address changed"));
                        return;
                    }
                    if access::stored_id(next) != want {
                        self.viol("C19.read", format!("conversion chain on {obj}, step {c:?}: the converted pointer reads id {:?}, the original {want:?}", access::stored_id(next)));
                        return;
                    }
                    cur = next;
                }
                self.w.stats.cell(format!("convert-chain|{}", chain.len()));
            }
            Op::Zst { id, a: al, sized, via_static } => self.op_zst(*id, *al, *sized, *via_static),
            Op::HandleIn { h, op } => self.op_handle_in(*h, *op),
            Op::AllocCopy { id, children, header } => {
                let n = children.len().min(9);
                if (*header && n == 0) || self.w.sh.objs.contains_key(id) || tok::drops(*id) > 0 {
                    return self.skip();
                }
                // the pointers it is born with: objects this callback can name, nothing else
                let kids: Vec<Option<Id>> = children[..n].iter().map(|c| c.filter(|c| self.map.contains_key(c))).collect();
                let edges: Vec<Edge<'gc>> = {
                    let _p = seam::pause();
                    kids.iter().map(|c| c.and_then(|c| self.map.get(&c).copied())).collect()
                };
                let kind = if *header { Kind::CopySwh { len: (n - 1) as u8 } } else { Kind::CopySlice { len: n as u8 } };
                self.alloc_made(*id, kind, Some(&edges));
                {
                    let _p = seam::pause();
                    drop(edges);
                }
                if let Some(o) = self.w.sh.objs.get_mut(id) {
                    for (k, c) in kids.iter().enumerate() {
                        o.strong[k] = *c;
                    }
                }
                self.w.stats.cell(format!("alloc-copy|{}|{}", if *header { "swh" } else { "slice" }, phase_name(self.phase)));
                self.rep.only_barriers = false;
            }
        }
    }

    /// A handle cloned or dropped inside the callback. Nothing may be destructed or released by
    /// it (C03: the enclosing context is a callback); a dropped last handle makes its object
    /// collectable like an unlink does.
    fn op_handle_in(&mut self, h: Hid, op: HandleOp) {
        if !self.w.handles.contains_key(&h) {
            return self.skip();
        }
        let arena = self.w.handles[&h].arena;
        let arena_alive = self.w.sh.arena_alive(arena);
        if arena != self.a && arena_alive {
            // a handle of another live arena: operating on it is an act on *that* arena (its slot
            // table, its reachability), which the isolation frame of C20 attributes by event
            return self.skip();
        }
        self.w.stats.handle_ops += 1;
        if arena == self.a && self.phase != Phase::Sleeping {
            self.w.stats.flag("C14.handle-op-mid-cycle");
        }
        self.w.stats.cell(format!("handle-in|{}|{}", if matches!(op, HandleOp::Drop) { "drop" } else { "clone" }, if arena == self.a { "own" } else { "dead" }));
        match op {
            HandleOp::Clone { new } => {
                if self.w.handles.contains_key(&new) {
                    return self.skip();
                }
                let hs = &self.w.handles[&h];
                let r = std::panic::catch_unwind(std::panic::AssertUnwindSafe(|| {
                    let _t = seam::track();
                    hs.real.clone_handle()
                }));
                match r {
                    Ok(real) => {
                        let (group, obj) = (hs.group, hs.obj);
                        self.w.handles.insert(new, HandleState { real, group, arena, obj });
                        self.w.sh.handles.insert(new, group);
                        self.w.sh.groups.get_mut(&group).unwrap().count += 1;
                        self.w.sh.next_hid = self.w.sh.next_hid.max(new + 1);
                    }
                    Err(p) => {
                        let o = if arena_alive { "C14.panic" } else { "C14.afterlife" };
                        let m = panic_message(&p);
                        self.viol(o, format!("DynamicRoot::clone inside a callback panicked: {m}"));
                    }
                }
            }
            HandleOp::Drop => {
                let hs = self.w.handles.remove(&h).unwrap();
                let group = hs.group;
                let r = std::panic::catch_unwind(std::panic::AssertUnwindSafe(move || {
                    let _t = seam::track();
                    drop(hs.real)
                }));
                if let Err(p) = r {
                    let o = if arena_alive { "C14.panic" } else { "C14.afterlife" };
                    let m = panic_message(&p);
                    self.viol(o, format!("DynamicRoot::drop inside a callback panicked: {m}"));
                }
                self.w.sh.handles.remove(&h);
                self.w.sh.dec_group(group);
                if arena_alive {
                    self.w.rt[arena as usize].clean_since_wake = false;
                    self.w.rt[arena as usize].dead_set = None;
                }
                if arena == self.a {
                    self.note_mutation();
                }
            }
        }
        self.rep.only_barriers = false;
    }

    fn alloc(&mut self, id: Id, kind: Kind) {
        self.alloc_made(id, kind, None)
    }

    /// `edges`: for the copy-path kinds, the pointers the object is born with.
    fn alloc_made(&mut self, id: Id, kind: Kind, edges: Option<&[Edge<'gc>]>) {
        let a = self.a;
        let z0 = tok::z_counts();
        let since = seam::mark();
        let mut lay_info = None;
        let any = match kind {
            Kind::CopySlice { .. } => access::alloc_copy(self.mc, id, edges.unwrap_or(&[]), false),
            Kind::CopySwh { .. } => access::alloc_copy(self.mc, id, edges.unwrap_or(&[]), true),
            Kind::Lay { t, len } => {
                let seed = crate::rng::mix(0x1A7, id as u64);
                let made = (crate::lay::LAYS[t as usize].make)(self.mc, len as usize, seed);
                if made.addr % made.align != 0 {
                    self.w.violate("C17.align", format!("a new {} (length {len}) is at an address not aligned to {}", crate::lay::LAYS[t as usize].name, made.align));
                }
                if let Some(e) = &made.roundtrip {
                    // a conversion that does not give back the same pointer is C19's as well
                    self.w.violate_with("C17.roundtrip", &["C19.ptr-eq"], format!("a new {} (length {len}): {e}", crate::lay::LAYS[t as usize].name));
                }
                lay_info = Some((t, len as usize, seed, made.size, made.align));
                if made.align > 16 || made.size == 0 {
                    self.w.stats.flag("C17.exotic-layout");
                }
                self.w.stats.cell(format!("lay|{}", crate::lay::LAYS[t as usize].name));
                AnyGc::Opaque(made.ptr)
            }
            _ => access::alloc(self.mc, kind, id),
        };
        let ev = self.w.ev_index as u32;
        let mut register = |w: &mut World, id: Id, kind: Kind, addr: usize, toks: Vec<Id>| {
            let block = seam::attribute(addr, since, id);
            if block.is_none() && seam::active() {
                w.violate("H.seam", format!("no allocator block found for new object {id}"));
            }
            let mut strong = vec![None; kind.n_strong()];
            if kind == Kind::SetHolder {
                strong[0] = Some(id + 1);
            }
            w.sh.objs.insert(id, Obj { kind, arena: a, strong, weak: vec![None; kind.n_weak()], toks, addr, block, destructed: false, released: false, born_event: ev, lay: None, conv: vec![], drop_faulted: false, leaked: false });
            w.addr2id.insert(addr, id);
            w.sh.next_id = w.sh.next_id.max(id + 1);
            w.stats.allocs += 1;
            w.rt[a as usize].allocs += 1;
            if let Some((_, n)) = w.rt[a as usize].wake.as_mut() {
                *n += 1;
            }
            if let Some((_, n)) = w.rt[a as usize].sleep.as_mut() {
                *n += 1;
            }
        };
        if kind == Kind::SetHolder {
            // the set's hidden Gc object: the second newest object in the collector's list
            let snap = self.mc.verif_snapshot();
            if snap.objects.len() >= 2 && snap.objects[0].addr == any.addr() {
                register(self.w, id + 1, Kind::SetInner, snap.objects[1].addr, vec![]);
            } else {
                self.w.violate("H.seam", format!("cannot locate the Gc object of the DynamicRootSet of {id}"));
            }
        }
        register(self.w, id, kind, any.addr(), if kind.has_tok() { vec![id] } else { vec![] });
        self.rep.allocated += 1;
        if kind == Kind::ZLeaf {
            // a zero-sized value with a destructor: it has been moved into the arena, not dropped
            let z1 = tok::z_counts();
            if z1.1 != z0.1 {
                self.w.violate_with("C04.twice", &["C03.drop-in-callback"], format!("allocating the zero-sized value {id} ran its destructor {} time(s) on the spot (it will be destructed again when it is collected)", z1.1 - z0.1));
            }
            self.w.z_pending.insert(id, 1);
        }
        self.w.sh.objs.get_mut(&id).unwrap().lay = lay_info;
        // C17.extent at allocation: the whole value lies inside the block the allocator handed out
        if let Some(b) = self.w.sh.objs[&id].block {
            let blk = seam::block(b);
            let vsize = lay_info.map(|l| l.3).unwrap_or(0);
            if any.addr() < blk.user || any.addr() + vsize > blk.user + blk.size {
                self.w.violate("C17.extent", format!("value of {id} ({kind:?}, {vsize} bytes) does not lie inside the block the allocator handed out"));
            }
        }
        self.map.insert(id, any);
        self.fresh.insert(id);
        if self.phase == Phase::Sweeping {
            self.w.stats.flag("alloc-during-sweep");
        }
        if self.w.cfg.coverage {
            self.w.stats.cell(format!("alloc|{kind:?}|{}", phase_name(self.phase)));
        }
    }

    fn read_weak_slot(&self, holder: Holder, slot: usize) -> Option<AnyWeak<'gc>> {
        match holder {
            Holder::Root => self.root.get().weak.get(slot).copied().flatten(),
            Holder::Obj(i) => {
                let any = *self.map.get(&i)?;
                if slot >= access::kind_of(any).n_weak() {
                    return None;
                }
                access::read_weak(any, slot)
            }
        }
    }
    fn read_strong_slot(&self, holder: Holder, slot: usize) -> Option<AnyGc<'gc>> {
        match holder {
            Holder::Root => self.root.get().slots.get(slot).copied().flatten(),
            Holder::Obj(i) => {
                let any = *self.map.get(&i)?;
                if slot >= access::kind_of(any).n_strong() {
                    return None;
                }
                access::read_strong(any, slot)
            }
        }
    }

    /// Walk the strong closure of a pointer obtained outside the root traversal (an upgraded or
    /// resurrected one), checking every member, and add it to the pointers held.
    fn traverse_from(&mut self, id: Id, any: AnyGc<'gc>, oracle: &str) {
        let mut stack = vec![(id, any)];
        let mut seen = BTreeSet::new();
        while let Some((i, g)) = stack.pop() {
            if !seen.insert(i) {
                continue;
            }
            let Some(o) = self.w.sh.objs.get(&i).cloned() else { continue };
            if self.released(i) || (!o.toks.is_empty() && self.destructed(i)) {
                self.viol(oracle, format!("closure of {id} contains {i}, which has been destructed or released"));
                return;
            }
            if g.addr() != o.addr || access::stored_id(g).is_some_and(|s| s != i) {
                self.viol(oracle, format!("closure of {id}: member {i} does not read back as itself"));
                return;
            }
            self.map.entry(i).or_insert(g);
            if o.kind == Kind::SetHolder || o.leaked {
                continue;
            }
            for k in 0..o.kind.n_strong() {
                match (access::read_strong(g, k), o.strong[k]) {
                    (Some(c), Some(cid)) => stack.push((cid, c)),
                    (None, None) => {}
                    _ => {
                        self.viol(oracle, format!("closure of {id}: {i}.strong[{k}] disagrees with the shadow"));
                        return;
                    }
                }
            }
        }
    }

    fn op_upgrade(&mut self, holder: Holder, slot: usize, then: Option<Then>) {
        let a = self.a;
        let Some(Some(t)) = self.w.sh.holder_weak(a, holder, slot) else { return self.skip() };
        if self.holder_any(holder).is_none() {
            return self.skip();
        }
        let Some(wk) = self.read_weak_slot(holder, slot) else { return self.skip() };
        // before any query: the target's block must still be allocated
        if self.released(t) {
            self.viol("C05.shell-released", format!("weak pointer {holder:?}.weak[{slot}] -> {t}: target block already released"));
            return;
        }
        let has_tok = !self.w.sh.objs[&t].toks.is_empty();
        let destructed = self.destructed(t);
        let reach_now = self.w.sh.reach(a);
        let state = if reach_now.contains(&t) {
            "reachable"
        } else if destructed {
            "destructed"
        } else if self.fresh.contains(&t) {
            "fresh"
        } else {
            "weak-only"
        };
        if state != "reachable" || self.phase != Phase::Sleeping {
            self.w.stats.flag("C05.nontrivial-query");
        }
        let pend = self.colors.get(&t).map(|c| if c.pending { "pending" } else { "passed" }).unwrap_or("na");
        let isd = wk.is_dropped();
        if has_tok && isd != destructed {
            self.viol("C05.is-dropped", format!("is_dropped({t}) = {isd} but the destructor has{} run", if destructed { "" } else { " not" }));
            return;
        }
        if isd && reach_now.contains(&t) {
            self.viol("C05.is-dropped", format!("is_dropped({t}) = true for a strongly reachable target"));
            return;
        }
        let Some(then) = then else {
            self.w.stats.cell(format!("weakq|is_dropped|{state}|{}|{pend}", phase_name(self.phase)));
            return;
        };
        self.w.stats.upgrades += 1;
        let up = wk.upgrade(self.mc);
        self.w.stats.cell(format!("weakq|upgrade-{}|{state}|{}|{pend}", if up.is_some() { "some" } else { "none" }, phase_name(self.phase)));
        self.w.sigmix(0x06 + up.is_some() as u64 * 2 + destructed as u64);
        match up {
            Some(g) => {
                if destructed || isd {
                    self.viol("C05.upgrade-destructed", format!("upgrade of weak pointer to {t} succeeded although its value has been destructed"));
                    return;
                }
                if g.addr() != self.w.sh.objs[&t].addr || access::stored_id(g).is_some_and(|s| s != t) {
                    self.viol("C05.closure", format!("upgraded pointer to {t} does not read back as {t}"));
                    return;
                }
                match then {
                    Then::Discard => {}
                    Then::Traverse => self.traverse_from(t, g, "C05.closure"),
                    Then::Store { holder: h2, slot: s2, route } => {
                        self.traverse_from(t, g, "C05.closure");
                        if self.w.ok() {
                            self.w.stats.flag("C05.stored");
                            self.w.rt[self.a as usize].up_stored.insert(t);
                            self.exec_op_inner(&Op::Link { holder: h2, slot: s2, child: t, route, conv: Conv::None });
                        }
                    }
                }
            }
            None => {
                if reach_now.contains(&t) {
                    self.viol("C05.upgrade-refused-reachable", format!("upgrade of weak pointer to strongly reachable {t} failed in phase {}", phase_name(self.phase)));
                } else if has_tok && !destructed && self.phase != Phase::Sweeping {
                    self.viol("C05.upgrade-refused-no-reason", format!("upgrade of weak pointer to {t} failed: value not destructed and phase {}", phase_name(self.phase)));
                } else if !destructed {
                    self.w.stats.upgrades_refused_live += 1;
                }
            }
        }
    }

    fn op_barrier_only(&mut self, form: BarrierForm, parent: Option<Id>, child: Option<Id>) {
        let p = parent.and_then(|p| self.map.get(&p).copied());
        let c = child.and_then(|c| self.map.get(&c).copied());
        if parent.is_some() && p.is_none() || child.is_some() && c.is_none() {
            return self.skip();
        }
        let mc = self.mc;
        let what = format!("barrier:{form:?}:{}", parent.and_then(|p| self.w.sh.objs.get(&p)).map(|o| if o.kind.needs_trace() { "tracing" } else { "nontracing" }).unwrap_or("none"));
        self.cover_write(&what, parent, child);
        if matches!(self.phase, Phase::Marking | Phase::Marked) {
            self.w.stats.flag("C10.barrier-during-marking");
        }
        let is_forward = matches!(form, BarrierForm::ForwardSome | BarrierForm::ForwardNone | BarrierForm::ForwardWeakSome | BarrierForm::ForwardWeakNone);
        let call = move |_me: &mut Self| match (form, p, c) {
            (BarrierForm::BackwardSome, Some(p), Some(c)) => mc.backward_barrier(p.erase(), Some(c.erase())),
            (BarrierForm::BackwardNone, Some(p), _) => mc.backward_barrier(p.erase(), None),
            (BarrierForm::BackwardWeak, Some(p), Some(c)) => mc.backward_barrier_weak(p.erase(), c.downgrade().erase()),
            (BarrierForm::ForwardSome, Some(p), Some(c)) => mc.forward_barrier(Some(p.erase()), c.erase()),
            (BarrierForm::ForwardNone, _, Some(c)) => mc.forward_barrier(None, c.erase()),
            (BarrierForm::ForwardWeakSome, Some(p), Some(c)) => mc.forward_barrier_weak(Some(p.erase()), c.downgrade().erase()),
            (BarrierForm::ForwardWeakNone, _, Some(c)) => mc.forward_barrier_weak(None, c.downgrade().erase()),
            (BarrierForm::Write, Some(p), _) => access::touch(mc, p),
            (BarrierForm::Touch, Some(p), _) => access::touch(mc, p),
            _ => {}
        };
        // barrier-only ops leave `only_barriers` as it is, but they may mark: finalize exactness off
        self.rep.mutated = true;
        self.w.rt[self.a as usize].dead_set = None;
        self.w.rt[self.a as usize].clean_since_wake = false;
        let res = std::panic::catch_unwind(std::panic::AssertUnwindSafe(|| {
            if is_forward && child.is_some() {
                self.forward_mark_probe(child.unwrap(), call);
            } else {
                call(self);
            }
        }));
        if let Err(e) = res {
            let m = panic_message(&e);
            self.viol("C06.panic", format!("barrier {form:?} (parent {parent:?}, child {child:?}) panicked: {m}"));
        }
    }

    fn op_is_dead(&mut self, holder: Holder, slot: usize, weak: bool) {
        let Some(fc) = self.fc else { return self.skip() };
        if self.rep.mutated || self.rep.mutated_by_resurrect || self.holder_any(holder).is_none() {
            // exactness is only promised at handout; after any op that may mark, skip the query
            return self.skip();
        }
        let a = self.a;
        let t = if weak { self.w.sh.holder_weak(a, holder, slot) } else { self.w.sh.holder_strong(a, holder, slot) };
        let Some(Some(t)) = t else { return self.skip() };
        if self.released(t) {
            self.viol("C05.shell-released", format!("finalize: target {t} of {holder:?}[{slot}] already released"));
            return;
        }
        let dead = if weak {
            let Some(wk) = self.read_weak_slot(holder, slot) else { return self.skip() };
            wk.is_dead(fc)
        } else {
            let Some(g) = self.read_strong_slot(holder, slot) else { return self.skip() };
            g.is_dead(fc)
        };
        self.w.stats.isdead_queries += 1;
        let reachable = self.reach0.contains(&t);
        if !reachable {
            self.w.stats.flag("C07.queried-dead");
        }
        if reachable && dead {
            // reachable through a pointer adopted by a barrier path in this cycle? Then the barrier
            // did not make the collector treat it as if the pointer had been there all along (C06)
            let rt = &self.w.rt[self.a as usize];
            let adopted = rt.adopted_cur.iter().any(|r| self.w.sh.closure(*r).contains(&t));
            let al: &[&str] = if adopted { &["C06.adopted-dead"] } else { &[] };
            self.w.violate_with("C07.reachable-dead", al, format!("is_dead({t}) = true at handout although {t} is strongly reachable"));
            return;
        }
        if self.clean0 {
            self.w.stats.isdead_exact += 1;
            if dead == reachable {
                self.viol("C07.exact", format!("no mutation since marking began, but is_dead({t}) = {dead} and reachable = {reachable}"));
            }
        }
        self.w.stats.cell(format!("isdead|{}|{}|{}", if weak { "weak" } else { "strong" }, if reachable { "reachable" } else { "unreachable" }, if self.clean0 { "exact" } else { "onesided" }));
    }

    fn op_resurrect(&mut self, holder: Holder, slot: usize, weak: bool) {
        let Some(fc) = self.fc else { return self.skip() };
        if self.holder_any(holder).is_none() {
            return self.skip();
        }
        let a = self.a;
        let t = if weak { self.w.sh.holder_weak(a, holder, slot) } else { self.w.sh.holder_strong(a, holder, slot) };
        let Some(Some(t)) = t else { return self.skip() };
        if self.released(t) {
            self.viol("C05.shell-released", format!("finalize: target {t} of {holder:?}[{slot}] already released"));
            return;
        }
        let destructed = self.destructed(t);
        let has_tok = !self.w.sh.objs[&t].toks.is_empty();
        self.res_allow = {
            let mf = self.w.sh.arena(a).pacing.mark;
            if self.w.cfg.coverage {
                self.refresh_colors();
                match self.color(t) {
                    0 | 9 => mf,
                    _ => 0.0,
                }
            } else {
                mf
            }
        };
        self.rep.resurrect_ops += 1;
        self.rep.mutated_by_resurrect = true;
        self.rep.only_barriers = false;
        self.w.rt[a as usize].dead_set = None;
        let (was_dead, got) = if weak {
            let Some(wk) = self.read_weak_slot(holder, slot) else { return self.skip() };
            let was_dead = wk.is_dead(fc);
            let r = wk.resurrect(fc);
            if has_tok && r.is_none() != destructed {
                self.viol("C07.resurrect-result", format!("resurrect({t}) returned {} but the value has{} been destructed", if r.is_some() { "Some" } else { "None" }, if destructed { "" } else { " not" }));
                return;
            }
            if r.is_some() && wk.is_dead(fc) {
                self.viol("C07.resurrect-result", format!("{t} still reports dead right after being resurrected"));
                return;
            }
            (was_dead, r)
        } else {
            if destructed {
                return self.skip();
            }
            let Some(g) = self.read_strong_slot(holder, slot) else { return self.skip() };
            let was_dead = g.is_dead(fc);
            g.resurrect(fc);
            if g.is_dead(fc) {
                self.viol("C07.resurrect-result", format!("{t} still reports dead right after being resurrected"));
                return;
            }
            (was_dead, Some(g))
        };
        self.w.stats.resurrections += 1;
        if let Some(g) = got {
            if g.addr() != self.w.sh.objs[&t].addr {
                self.viol("C07.resurrect-result", format!("resurrect({t}) returned a pointer to something else"));
                return;
            }
            // protected for the rest of the cycle, with everything reachable from it
            self.w.sh.arena_mut(a).resurrected.insert(t);
            if was_dead {
                self.rep.resurrected_dead = true;
                self.w.stats.flag("C07.resurrected-dead");
            }
            self.traverse_from(t, g, "C07.resurrected-lost");
        }
        self.w.stats.cell(format!("resurrect|{}|{}", if weak { "weak" } else { "strong" }, if was_dead { "dead" } else { "marked" }));
    }
}

pub fn route_label(kind: Kind, slot: usize, route: Route) -> String {
    match kind {
        Kind::Field | Kind::Bag => format!("slot{slot}"),
        _ => format!("{route:?}"),
    }
}

// ------------------------------------------------------------------------------------------------
// opaque leaves, builders, ZstCache (C17, C18, C19)

use gc_arena::{GcBuilder, GcSliceBuilder, GcSliceWithHeaderBuilder, GcStrBuilder, GcThinSliceWithHeader, Static};

#[repr(align(1))]
#[derive(Clone, Copy, Default)]
struct Zt1;
#[repr(align(2))]
#[derive(Clone, Copy, Default)]
struct Zt2;
#[repr(align(4))]
#[derive(Clone, Copy, Default)]
struct Zt4;
#[repr(align(8))]
#[derive(Clone, Copy, Default)]
struct Zt8;
#[repr(align(16))]
#[derive(Clone, Copy, Default)]
struct Zt16;
#[repr(align(32))]
#[derive(Clone, Copy, Default)]
struct Zt32;
#[repr(align(64))]
#[derive(Clone, Copy, Default)]
struct Zt64;
gc_arena::static_collect!(Zt1);
gc_arena::static_collect!(Zt2);
gc_arena::static_collect!(Zt4);
gc_arena::static_collect!(Zt8);
gc_arena::static_collect!(Zt16);
gc_arena::static_collect!(Zt32);
gc_arena::static_collect!(Zt64);

trait ZMark {
    fn zmark(&self) -> u8;
}
impl ZMark for Zt1 {
    fn zmark(&self) -> u8 {
        1
    }
}
impl ZMark for Zt2 {
    fn zmark(&self) -> u8 {
        2
    }
}

impl<'w, 'r, 'gc> Cb<'w, 'r, 'gc> {
    /// Content check of an opaque leaf, stored as an erased thin pointer.
    fn check_opaque(&mut self, id: Id, ptr: gc_arena::Gc<'gc, ()>) -> Result<(), (&'static str, String)> {
        let o = self.w.sh.objs[&id].clone();
        match o.kind {
            Kind::Lay { t, .. } => {
                let Some((_, len, seed, _, align)) = o.lay else { return Ok(()) };
                if (gc_arena::Gc::as_ptr(ptr) as usize) % align != 0 {
                    return Err(("C17.align", format!("address not aligned to {align}")));
                }
                (crate::lay::LAYS[t as usize].check)(ptr, len, seed).map_err(|e| ("C17.pattern", e))
            }
            Kind::Built { len } => {
                let thin: GcThinSliceWithHeader<'gc, Tok, Tok> = unsafe { gc_arena::Gc::from_thin_ptr_with_kind(gc_arena::Gc::as_ptr(ptr) as *const Tok) };
                let fat = gc_arena::Gc::as_fat(thin);
                if fat.slice.len() != len as usize {
                    return Err(("C18.content", format!("built with {len} elements, reads {}", fat.slice.len())));
                }
                if fat.header.0 != id || fat.slice.iter().enumerate().any(|(i, t)| t.0 != id + 1 + i as u32) {
                    return Err(("C18.content", "header / elements do not read back what the builder wrote".to_string()));
                }
                Ok(())
            }
            _ => Ok(()),
        }
    }

    fn op_zst(&mut self, id: Id, al: u8, sized: bool, via_static: bool) {
        if self.w.sh.objs.contains_key(&id) || al > 6 {
            return self.skip();
        }
        let a = self.a;
        let mc = self.mc;
        let Some(cache) = self.root.get().zst else { return self.skip() };
        let count0 = mc.metrics().total_gc_count();
        let since = seam::mark();
        macro_rules! zst {
            ($t:ty) => {{
                let g = {
                    let _t = seam::track();
                    if via_static { cache.alloc_static(mc, <$t>::default()) } else { cache.alloc(mc, <$t>::default()) }
                };
                (cache.is_cached(g), gc_arena::Gc::as_ptr(g) as usize, gc_arena::Gc::erase(g), align_of::<$t>(), size_of::<$t>())
            }};
        }
        let (cached, addr, erased, align, size) = if sized {
            zst!(u64)
        } else {
            match al {
                0 => zst!(Zt1),
                1 => zst!(Zt2),
                2 => zst!(Zt4),
                3 => zst!(Zt8),
                4 => zst!(Zt16),
                5 => zst!(Zt32),
                _ => zst!(Zt64),
            }
        };
        // identity must not depend on pointer metadata: two different zero-sized types served by
        // the cache share one allocation; unsized to the same trait object / slice type they carry
        // different vtables / lengths, and are still pointers to the same allocation (C19)
        if !sized {
            let x: gc_arena::Gc<'gc, dyn ZMark> = {
                let g = cache.alloc(mc, Zt1);
                gc_arena::unsize!(g => dyn ZMark)
            };
            let y: gc_arena::Gc<'gc, dyn ZMark> = {
                let g = cache.alloc(mc, Zt2);
                gc_arena::unsize!(g => dyn ZMark)
            };
            let a3: gc_arena::Gc<'gc, [Zt1]> = {
                let g = cache.alloc(mc, [Zt1; 3]);
                gc_arena::unsize!(g => [Zt1])
            };
            let a5: gc_arena::Gc<'gc, [Zt1]> = {
                let g = cache.alloc(mc, [Zt1; 5]);
                gc_arena::unsize!(g => [Zt1])
            };
            let same_addr = gc_arena::Gc::as_ptr(x) as *const () == gc_arena::Gc::as_ptr(y) as *const () && gc_arena::Gc::as_ptr(a3) as *const () == gc_arena::Gc::as_ptr(a5) as *const ();
            if same_addr {
                if !gc_arena::Gc::ptr_eq(x, y) || !gc_arena::GcWeak::ptr_eq(gc_arena::Gc::downgrade(x), gc_arena::Gc::downgrade(y)) {
                    self.viol("C19.ptr-eq", "two trait-object pointers to the same allocation (different vtables) are not ptr_eq".to_string());
                    return;
                }
                if !gc_arena::Gc::ptr_eq(a3, a5) || a3.len() != 3 || a5.len() != 5 {
                    self.viol("C19.ptr-eq", "two slice pointers to the same allocation (lengths 3 and 5) are not ptr_eq, or lost their lengths".to_string());
                    return;
                }
                if x.zmark() != 1 || y.zmark() != 2 {
                    self.viol("C19.read", "a trait object made from a cached ZST dispatches to the wrong type".to_string());
                    return;
                }
            }
        }
        if !sized {
            // a zero-sized value WITH a destructor: the cache serves it from its one shared
            // allocation (of another type, which can never destruct it later), so the value handed
            // in is destructed on the spot - exactly once, as its own type (C04, C19)
            let (m0, d0) = tok::z_counts();
            let (zc, zc16) = {
                let _t = seam::track();
                if via_static {
                    (cache.is_cached(cache.alloc_static(mc, tok::ZTok::new())), cache.is_cached(cache.alloc_static(mc, tok::ZTok16::new())))
                } else {
                    (cache.is_cached(cache.alloc(mc, tok::ZTok::new())), cache.is_cached(cache.alloc(mc, tok::ZTok16::new())))
                }
            };
            let (m1, d1) = tok::z_counts();
            self.w.stats.flag("C19.zst-with-destructor");
            if zc && zc16 && (m1 - m0, d1 - d0) != (2, 2) {
                self.w.violate_with("C04.never", &["C19.zst-destruct"], format!("two zero-sized values with destructors were handed to ZstCache::alloc{} and served from the cache: {} destructor runs were seen at that point, not 2 (nothing can destruct them later)", if via_static { "_static" } else { "" }, d1 - d0));
                return;
            }
        }
        let expect = size == 0 && align <= 16;
        self.w.stats.cell(format!("zst|size{}|align{align}|{}", size.min(1), if cached { "cached" } else { "fresh" }));
        if cached != expect {
            self.viol("C19.zst-table", format!("ZstCache<16>: a value of size {size} and alignment {align} was {}", if cached { "served from the cache" } else { "allocated afresh" }));
            return;
        }
        if addr % align != 0 {
            self.viol("C19.zst-table", format!("ZstCache<16> returned a pointer not aligned to {align}"));
            return;
        }
        let count1 = mc.metrics().total_gc_count();
        if cached {
            let shared = self.w.sh.arena(a).root_zst.and_then(|z| self.w.sh.objs.get(&z)).map(|o| o.addr);
            if Some(addr) != shared || count1 != count0 {
                self.viol("C19.zst-table", "a cached ZST pointer is not the cache's shared pointer, or allocated something".to_string());
            }
        } else {
            // an ordinary allocation: a garbage leaf from here on
            let block = seam::attribute(addr, since, id);
            if block.is_none() && seam::active() {
                self.viol("H.seam", format!("no allocator block found for the uncached ZstCache allocation {id}"));
            }
            let ev = self.w.ev_index as u32;
            self.w.sh.objs.insert(id, Obj { kind: Kind::Lay { t: 254, len: 0 }, arena: a, strong: vec![], weak: vec![], toks: vec![], addr, block, destructed: false, released: false, born_event: ev, lay: None, conv: vec![], drop_faulted: false, leaked: false });
            self.w.addr2id.insert(addr, id);
            self.w.sh.next_id = self.w.sh.next_id.max(id + 1);
            self.w.stats.allocs += 1;
            let rt = &mut self.w.rt[a as usize];
            rt.allocs += 1;
            if let Some((_, n)) = rt.wake.as_mut() {
                *n += 1;
            }
            if let Some((_, n)) = rt.sleep.as_mut() {
                *n += 1;
            }
            let _ = erased;
        }
        self.rep.only_barriers = false;
    }

    /// C18: run one builder up to `stage` and account for every block and every part.
    fn op_builder(&mut self, first: Id, kind: BKind, n: usize, stage: BStage) {
        let n = n.min(8);
        let ids = 1 + n as u32;
        if (0..ids).any(|d| self.w.sh.objs.contains_key(&(first + d)) || tok::drops(first + d) > 0) {
            return self.skip();
        }
        let a = self.a;
        let mc = self.mc;
        let m = mc.metrics().clone();
        let (count0, debt0) = (m.total_gc_count(), m.allocation_debt());
        let since = seam::mark();
        let _cx = seam::enter(seam::CTX_BUILDER, a as u16);
        self.rep.only_barriers = false;
        self.w.sh.next_id = self.w.sh.next_id.max(first + ids);
        // which parts get constructed, and what comes out
        let mut made_header = false;
        let mut made_elems = 0usize;
        let mut completed: Option<gc_arena::Gc<'gc, ()>> = None;
        let mut expected_panic = false;
        let mut raw_content_error: Option<String> = None;
        let z0 = tok::z_counts();
        let zst_elems = matches!(kind, BKind::SliceZst | BKind::SwhZst);
        let res = std::panic::catch_unwind(std::panic::AssertUnwindSafe(|| {
            let _t = seam::track();
            match kind {
                BKind::Sized => match stage {
                    BStage::Complete => {
                        made_header = true;
                        completed = Some(gc_arena::Gc::erase(GcBuilder::<Static<Tok>>::new().unwrap_static().write(mc, Tok(first))));
                    }
                    _ => drop(GcBuilder::<Static<Tok>>::new()),
                },
                BKind::Swh => {
                    let b = GcSliceWithHeaderBuilder::<Tok, Tok>::new(n);
                    match stage {
                        BStage::AbandonNew => drop(b),
                        BStage::AbandonAfterHeader => {
                            made_header = true;
                            drop(b.write_header(Tok(first)))
                        }
                        BStage::PanicAt(k) => {
                            made_header = true;
                            let k = (k as usize).min(n.saturating_sub(1));
                            expected_panic = n > 0;
                            let cnt = &mut made_elems;
                            let g = b.write_header(Tok(first)).write_slice_with(mc, |i| {
                                if i == k {
                                    std::panic::panic_any(Injected)
                                }
                                *cnt += 1;
                                Tok(first + 1 + i as u32)
                            });
                            completed = Some(gc_arena::Gc::erase(g));
                        }
                        _ => {
                            made_header = true;
                            let cnt = &mut made_elems;
                            let g = b.write_header(Tok(first)).write_slice_with(mc, |i| {
                                *cnt += 1;
                                Tok(first + 1 + i as u32)
                            });
                            completed = Some(gc_arena::Gc::erase(g));
                        }
                    }
                }
                BKind::Slice => {
                    let b = GcSliceBuilder::<Tok>::new(n);
                    match stage {
                        BStage::AbandonNew | BStage::AbandonAfterHeader => drop(b),
                        BStage::PanicAt(k) => {
                            let k = (k as usize).min(n.saturating_sub(1));
                            expected_panic = n > 0;
                            let cnt = &mut made_elems;
                            let g = b.write_slice_with(mc, |i| {
                                if i == k {
                                    std::panic::panic_any(Injected)
                                }
                                *cnt += 1;
                                Tok(first + 1 + i as u32)
                            });
                            // only reached when there was no element to panic at
                            completed = Some(gc_arena::Gc::erase(g));
                        }
                        _ => {
                            // completed token slices are left as garbage: abandon instead
                            drop(b)
                        }
                    }
                }
                BKind::CopySlice => {
                    let b = GcSliceBuilder::<Static<u32>>::new(n).unwrap_static();
                    match stage {
                        BStage::WrongLen(d) if d != 0 => {
                            expected_panic = true;
                            let src = {
                                let _p = seam::pause();
                                vec![7u32; (n as i64 + d as i64).max(0) as usize]
                            };
                            expected_panic = src.len() != n;
                            let g = b.copy_slice(mc, &src);
                            completed = Some(gc_arena::Gc::erase(g));
                        }
                        _ => drop(b),
                    }
                }
                BKind::Str => {
                    let b = GcStrBuilder::new(n);
                    match stage {
                        BStage::WrongLen(d) if d != 0 => {
                            let src = {
                                let _p = seam::pause();
                                "x".repeat((n as i64 + d as i64).max(0) as usize)
                            };
                            expected_panic = src.len() != n;
                            let g = b.copy_str(mc, &src);
                            completed = Some(gc_arena::Gc::erase(g));
                        }
                        _ => drop(b),
                    }
                }
                BKind::SwhTokPod => {
                    let b = GcSliceWithHeaderBuilder::<Tok, u32>::new(n);
                    match stage {
                        BStage::AbandonNew => drop(b),
                        BStage::AbandonAfterHeader => {
                            made_header = true;
                            drop(b.write_header(Tok(first)))
                        }
                        BStage::PanicAt(k) => {
                            made_header = true;
                            let k = (k as usize).min(n.saturating_sub(1));
                            expected_panic = n > 0;
                            let g = b.write_header(Tok(first)).write_slice_with(mc, |i| {
                                if i == k {
                                    std::panic::panic_any(Injected)
                                }
                                i as u32
                            });
                            completed = Some(gc_arena::Gc::erase(g));
                        }
                        BStage::WrongLen(d) => {
                            made_header = true;
                            let src = {
                                let _p = seam::pause();
                                vec![7u32; (n as i64 + d as i64).max(0) as usize]
                            };
                            expected_panic = src.len() != n;
                            let g = b.write_header(Tok(first)).copy_slice(mc, &src);
                            completed = Some(gc_arena::Gc::erase(g));
                        }
                        BStage::Complete => {
                            made_header = true;
                            let g = b.write_header(Tok(first)).write_slice_with(mc, |i| i as u32);
                            completed = Some(gc_arena::Gc::erase(g));
                        }
                    }
                }
                BKind::SwhPodTok => {
                    let b = GcSliceWithHeaderBuilder::<u64, Tok>::new(n);
                    match stage {
                        BStage::AbandonNew => drop(b),
                        BStage::AbandonAfterHeader => drop(b.write_header(9)),
                        BStage::PanicAt(k) => {
                            let k = (k as usize).min(n.saturating_sub(1));
                            expected_panic = n > 0;
                            let cnt = &mut made_elems;
                            let g = b.write_header(9).write_slice_with(mc, |i| {
                                if i == k {
                                    std::panic::panic_any(Injected)
                                }
                                *cnt += 1;
                                Tok(first + 1 + i as u32)
                            });
                            completed = Some(gc_arena::Gc::erase(g));
                        }
                        _ => {
                            let cnt = &mut made_elems;
                            let g = b.write_header(9).write_slice_with(mc, |i| {
                                *cnt += 1;
                                Tok(first + 1 + i as u32)
                            });
                            completed = Some(gc_arena::Gc::erase(g));
                        }
                    }
                }
                BKind::SliceZst => {
                    let b = GcSliceBuilder::<ZTok>::new(n);
                    match stage {
                        BStage::AbandonNew | BStage::AbandonAfterHeader | BStage::WrongLen(_) => drop(b),
                        BStage::PanicAt(k) => {
                            let k = (k as usize).min(n.saturating_sub(1));
                            expected_panic = n > 0;
                            let cnt = &mut made_elems;
                            let g = b.write_slice_with(mc, |i| {
                                if i == k {
                                    std::panic::panic_any(Injected)
                                }
                                *cnt += 1;
                                ZTok::new()
                            });
                            completed = Some(gc_arena::Gc::erase(g));
                        }
                        BStage::Complete => {
                            let cnt = &mut made_elems;
                            let g = b.write_slice_with(mc, |_| {
                                *cnt += 1;
                                ZTok::new()
                            });
                            completed = Some(gc_arena::Gc::erase(g));
                        }
                    }
                }
                BKind::SwhZst => {
                    let b = GcSliceWithHeaderBuilder::<Tok, ZTok16>::new(n);
                    match stage {
                        BStage::AbandonNew => drop(b),
                        BStage::AbandonAfterHeader | BStage::WrongLen(_) => {
                            made_header = true;
                            drop(b.write_header(Tok(first)))
                        }
                        BStage::PanicAt(k) => {
                            made_header = true;
                            let k = (k as usize).min(n.saturating_sub(1));
                            expected_panic = n > 0;
                            let cnt = &mut made_elems;
                            let g = b.write_header(Tok(first)).write_slice_with(mc, |i| {
                                if i == k {
                                    std::panic::panic_any(Injected)
                                }
                                *cnt += 1;
                                ZTok16::new()
                            });
                            completed = Some(gc_arena::Gc::erase(g));
                        }
                        BStage::Complete => {
                            made_header = true;
                            let cnt = &mut made_elems;
                            let g = b.write_header(Tok(first)).write_slice_with(mc, |_| {
                                *cnt += 1;
                                ZTok16::new()
                            });
                            completed = Some(gc_arena::Gc::erase(g));
                        }
                    }
                }
                BKind::SwhMeta => {
                    let b = GcSliceWithHeaderBuilder::<Tok, Tok, crate::payload::NodeTag>::new_with_type_meta::<crate::payload::TagB>(n);
                    match stage {
                        BStage::AbandonNew => drop(b),
                        BStage::AbandonAfterHeader | BStage::WrongLen(_) => {
                            made_header = true;
                            drop(b.write_header(Tok(first)))
                        }
                        BStage::PanicAt(k) => {
                            made_header = true;
                            let k = (k as usize).min(n.saturating_sub(1));
                            expected_panic = n > 0;
                            let cnt = &mut made_elems;
                            let g = b.write_header(Tok(first)).write_slice_with(mc, |i| {
                                if i == k {
                                    std::panic::panic_any(Injected)
                                }
                                *cnt += 1;
                                Tok(first + 1 + i as u32)
                            });
                            completed = Some(gc_arena::Gc::erase(g));
                        }
                        BStage::Complete => {
                            made_header = true;
                            let cnt = &mut made_elems;
                            let g = b.write_header(Tok(first)).write_slice_with(mc, |i| {
                                *cnt += 1;
                                Tok(first + 1 + i as u32)
                            });
                            completed = Some(gc_arena::Gc::erase(g));
                        }
                    }
                }
                BKind::SwhRaw => {
                    let mut b = GcSliceWithHeaderBuilder::<Tok, Tok>::new(n);
                    match stage {
                        BStage::AbandonNew => drop(b),
                        BStage::AbandonAfterHeader => {
                            made_header = true;
                            // SAFETY: the header is written before it is declared initialised
                            unsafe {
                                b.header_ptr().write(Tok(first));
                                drop(b.assume_init())
                            }
                        }
                        _ => {
                            made_header = true;
                            // SAFETY: header and every element are written before the matching assume_init
                            unsafe {
                                b.header_ptr().write(Tok(first));
                                let mut sb = b.assume_init();
                                let p = sb.slice_ptr() as *mut Tok;
                                for i in 0..n {
                                    p.add(i).write(Tok(first + 1 + i as u32));
                                    made_elems += 1;
                                }
                                completed = Some(gc_arena::Gc::erase(sb.assume_init(mc)));
                            }
                        }
                    }
                }
                BKind::SizedRaw => {
                    let raw = GcBuilder::<Static<Tok>>::new().unwrap_static().into_raw();
                    // SAFETY: same T, M, P as the builder the pointer came from
                    let mut b: GcBuilder<'gc, Tok> = unsafe { GcBuilder::from_raw(raw) };
                    match stage {
                        BStage::Complete => {
                            made_header = true;
                            // SAFETY: the value is written before assume_init
                            unsafe {
                                b.as_ptr().write(Tok(first));
                                completed = Some(gc_arena::Gc::erase(b.assume_init(mc)));
                            }
                        }
                        _ => drop(b),
                    }
                }
                BKind::StrRaw => {
                    let mut b = GcStrBuilder::new(n);
                    match stage {
                        BStage::Complete => {
                            // SAFETY: every byte is written (ASCII) before assume_init
                            let g = unsafe {
                                let p = b.str_ptr() as *mut u8;
                                for i in 0..n {
                                    p.add(i).write(b'a' + (i % 26) as u8);
                                }
                                b.assume_init(mc)
                            };
                            if g.len() != n || !g.bytes().enumerate().all(|(i, c)| c == b'a' + (i % 26) as u8) {
                                raw_content_error = Some(format!("a str of length {n} completed through str_ptr reads back {:?}", &*g));
                            }
                            completed = Some(gc_arena::Gc::erase(g));
                        }
                        _ => drop(b),
                    }
                }
                BKind::TmToks => {
                    use crate::lay::{Fix0, Fix3, Stride, TypeLenMeta};
                    // SAFETY: TypeLenMeta is a correct PtrMeta / AllocMeta for [E] with Stride (the
                    // length is the per-type number); every element is written before assume_init
                    unsafe {
                        if n >= 2 {
                            let mut b = GcBuilder::<[Static<Tok>], Stride, TypeLenMeta>::new_with_type_and_ptr_meta::<Fix3>(());
                            if stage == BStage::Complete {
                                let p = b.as_ptr() as *mut Static<Tok>;
                                made_header = true;
                                p.write(Static(Tok(first)));
                                for i in 0..2 {
                                    p.add(1 + i).write(Static(Tok(first + 1 + i as u32)));
                                    made_elems += 1;
                                }
                                let g = b.assume_init(mc);
                                if g.len() != 3 {
                                    raw_content_error = Some(format!("a slice whose length (3) comes from per-type metadata reads length {}", g.len()));
                                }
                                completed = Some(gc_arena::Gc::erase(g));
                            } else {
                                drop(b)
                            }
                        } else {
                            let b = GcBuilder::<[Static<Tok>], Stride, TypeLenMeta>::new_with_type_and_ptr_meta::<Fix0>(());
                            if stage == BStage::Complete {
                                completed = Some(gc_arena::Gc::erase(b.assume_init(mc)));
                            } else {
                                drop(b)
                            }
                        }
                    }
                }
                BKind::StaticSwh => {
                    let b = GcSliceWithHeaderBuilder::<Static<u64>, Static<u16>>::new(n);
                    match stage {
                        BStage::AbandonNew => drop(b),
                        BStage::AbandonAfterHeader => drop(b.unwrap_static_header().write_header(9)),
                        _ => drop(b.unwrap_static_header().write_header(9).unwrap_static_element()),
                    }
                }
            }
        }));
        let unwound = res.is_err();
        // take the verdict out of the panic payload and release it (it was allocated while tracking)
        let verdict: Option<(bool, String)> = res.err().map(|p| (p.downcast_ref::<Injected>().is_some(), panic_message(&p)));
        if let Some((injected, msg)) = &verdict {
            let injected = *injected;
            if !injected && !(expected_panic && msg.contains("is not length")) {
                self.viol("C18.copy-length", format!("builder {kind:?} {stage:?}: unexpected panic: {msg}"));
                return;
            }
        } else if expected_panic && matches!(stage, BStage::WrongLen(_)) {
            self.viol("C18.copy-length", format!("builder {kind:?}: a source of the wrong length was accepted"));
            return;
        }
        if let Some(e) = raw_content_error {
            self.viol("C18.content", e);
            return;
        }
        // the element constructor ran for exactly the indices it should have
        if !unwound && matches!(stage, BStage::PanicAt(_)) && expected_panic {
            self.viol("C18.content", format!("builder {kind:?} {stage:?} (n = {n}): completed although the element constructor never reached the faulting index (it ran {made_elems} times)"));
            return;
        }
        if !unwound && completed.is_some() && matches!(kind, BKind::Swh | BKind::Slice | BKind::SwhPodTok | BKind::SliceZst | BKind::SwhZst | BKind::SwhMeta) && made_elems != n {
            self.viol("C18.content", format!("builder {kind:?} {stage:?}: completed with {n} elements but the element constructor ran {made_elems} times"));
            return;
        }
        self.w.stats.cell(format!("builder|{kind:?}|{}|{}", match stage { BStage::PanicAt(_) => "PanicAt".to_string(), BStage::WrongLen(_) => "WrongLen".to_string(), s => format!("{s:?}") }, phase_name(self.phase)));
        if unwound || !matches!(stage, BStage::Complete) {
            self.w.stats.flag("C18.abandoned");
        }
        // a completed object that reached the arena
        let completed = if unwound { None } else { completed };
        // ---- parts: exactly the initialised ones were destructed, exactly once
        let survives = completed.is_some();
        if !survives {
            let mut want = vec![];
            if made_header {
                want.push(first);
            }
            if !zst_elems {
                for i in 0..made_elems {
                    want.push(first + 1 + i as u32);
                }
            } else {
                let z1 = tok::z_counts();
                if z1.0 - z0.0 != made_elems as u64 || z1.1 - z0.1 != made_elems as u64 {
                    let al: &[&str] = if matches!(stage, BStage::PanicAt(_)) { &["C11.builder-parts"] } else { &[] };
                    self.w.violate_with("C18.parts", al, format!("builder {kind:?} {stage:?} (n = {n}): {} zero-sized elements were constructed and {} destructed when it was abandoned, expected {made_elems} of each", z1.0 - z0.0, z1.1 - z0.1));
                    return;
                }
            }
            for t in first..first + ids {
                let d = tok::drops(t);
                let w = want.contains(&t) as u8;
                if d != w {
                    // C11 states the same for a builder abandoned by a panicking element constructor
                    let al: &[&str] = if matches!(stage, BStage::PanicAt(_)) { &["C11.builder-parts"] } else { &[] };
                    self.w.violate_with("C18.parts", al, format!("builder {kind:?} {stage:?} (n = {n}): part {} was destructed {d} times, expected {w} (header written: {made_header}, elements initialised: {made_elems})", t - first));
                    return;
                }
            }
        }
        // ---- the block: released at once, exactly once (layout and double free are the seam's)
        let now = seam::mark();
        let mut live_new = vec![];
        for b in since..now {
            if seam::block(b).live && !seam::block(b).light && seam::block(b).owner == 0 {
                live_new.push(b);
            }
        }
        let (count1, debt1) = (m.total_gc_count(), m.allocation_debt());
        match completed {
            None => {
                if !live_new.is_empty() && seam::active() {
                    let b = seam::block(live_new[0]);
                    self.viol("C18.block", format!("builder {kind:?} {stage:?}: abandoned, but a block it allocated (size {}, align {}) was not released", b.size, b.align));
                    return;
                }
                if count1 != count0 || debt1 != debt0 {
                    self.viol("C18.visible", format!("builder {kind:?} {stage:?}: abandoned, but total_gc_count went {count0} -> {count1} and debt {debt0} -> {debt1}"));
                    return;
                }
            }
            Some(ptr) => {
                if count1 != count0 + 1 {
                    self.viol("C18.visible", format!("builder {kind:?}: completed, total_gc_count went {count0} -> {count1}"));
                    return;
                }
                // from here on an ordinary arena object (a leaf), garbage unless linked later
                let addr = gc_arena::Gc::as_ptr(ptr) as usize;
                let block = seam::attribute(addr, since, first);
                if block.is_none() && seam::active() {
                    self.viol("H.seam", format!("no allocator block found for the completed builder object {first}"));
                    return;
                }
                let mut toks: Vec<Id> = vec![];
                if made_header {
                    toks.push(first);
                }
                if !zst_elems {
                    toks.extend((0..made_elems).map(|i| first + 1 + i as u32));
                } else {
                    let z1 = tok::z_counts();
                    if z1.1 != z0.1 {
                        self.viol("C18.parts", format!("builder {kind:?}: completed, but {} of its zero-sized elements were destructed on the way", z1.1 - z0.1));
                        return;
                    }
                    self.w.z_pending.insert(first, made_elems as u64);
                }
                let okind = if matches!(kind, BKind::Swh | BKind::SwhRaw) { Kind::Built { len: n as u8 } } else if kind == BKind::TmToks { Kind::Lay { t: 252, len: 0 } } else { Kind::Lay { t: 253, len: 0 } };
                for t in &toks {
                    self.w.tok2obj.insert(*t, first);
                }
                let ev = self.w.ev_index as u32;
                self.w.sh.objs.insert(first, Obj { kind: okind, arena: a, strong: vec![], weak: vec![], toks, addr, block, destructed: false, released: false, born_event: ev, lay: None, conv: vec![], drop_faulted: false, leaked: false });
                self.w.addr2id.insert(addr, first);
                self.w.stats.allocs += 1;
                let rt = &mut self.w.rt[a as usize];
                rt.allocs += 1;
                if let Some((_, c)) = rt.wake.as_mut() {
                    *c += 1;
                }
                if let Some((_, c)) = rt.sleep.as_mut() {
                    *c += 1;
                }
                self.map.insert(first, AnyGc::Opaque(ptr));
                self.fresh.insert(first);
                self.w.stats.flag("C18.completed");
                if let Err((o, e)) = self.check_opaque(first, ptr) {
                    self.viol(o, format!("a just completed builder object: {e}"));
                }
            }
        }
        // never visible to the collector: the hook's object list does not contain it
        if completed.is_none() && self.w.cfg.coverage {
            let snap = mc.verif_snapshot();
            for b in since..now {
                let blk = seam::block(b);
                if blk.light {
                    continue;
                }
                if snap.objects.iter().any(|o| o.addr >= blk.user && o.addr <= blk.user + blk.size) {
                    self.viol("C18.visible", format!("builder {kind:?} {stage:?}: its block is in the collector's object list"));
                    return;
                }
            }
        }
    }
}
