//! Callback bodies: what the simulated mutator does inside one `mutate` / `mutate_root` /
//! `map_root` / `try_map_root` / `finalize` / `new` callback. Each op is one real API use plus
//! the matching shadow update and the oracles that can be evaluated at that point.

use std::collections::{BTreeMap, BTreeSet};

use gc_arena::arena::CollectionPhase as Phase;
use gc_arena::{DynamicRootSet, Finalization, Gc, Mutation};

use crate::access::{self, Wrote};
use crate::ops::*;
use crate::payload::*;
use crate::seam;
use crate::shadow::*;
use crate::tok::{self, Injected};
use crate::world::*;

/// What the generator may look at when it draws the next op of a callback.
pub struct CbView<'a> {
    pub sh: &'a Shadow,
    pub a: Aid,
    pub root_mutable: bool,
    pub finalize: bool,
    pub constructing: bool,
    pub phase: Phase,
    /// ids the callback holds real pointers to (reachable, fetched, upgraded, fresh)
    pub acc: Vec<Id>,
    /// ids allocated in this callback
    pub fresh: &'a BTreeSet<Id>,
    pub handles: Vec<(Hid, Aid, Id, u32)>,
    pub colors: &'a BTreeMap<Id, Col>,
    pub n_done: usize,
    /// a reachability-changing or marking op already ran in this callback
    pub mutated: bool,
    pub reach: &'a BTreeSet<Id>,
}

pub trait OpGen {
    fn next_op(&mut self, v: &CbView<'_>) -> Option<Op>;
}

pub type GenRef<'a> = Option<&'a mut (dyn OpGen + 'static)>;

pub enum Src<'a> {
    Replay { ops: &'a [Op], pos: usize },
    Gen { g: &'a mut (dyn OpGen + 'static), out: &'a mut Vec<Op> },
}

impl<'a> Src<'a> {
    fn next<'v>(&mut self, view: impl FnOnce() -> CbViewOwned<'v>) -> Option<Op> {
        match self {
            Src::Replay { ops, pos } => {
                let o = ops.get(*pos).cloned();
                *pos += 1;
                o
            }
            Src::Gen { g, out } => {
                let vo = view();
                let op = g.next_op(&vo.view());
                if let Some(o) = &op {
                    out.push(o.clone());
                }
                op
            }
        }
    }
}

/// Owned data behind a `CbView` (built only when generating).
pub struct CbViewOwned<'a> {
    pub sh: &'a Shadow,
    pub a: Aid,
    pub root_mutable: bool,
    pub finalize: bool,
    pub constructing: bool,
    pub phase: Phase,
    pub acc: Vec<Id>,
    pub fresh: &'a BTreeSet<Id>,
    pub handles: Vec<(Hid, Aid, Id, u32)>,
    pub colors: &'a BTreeMap<Id, Col>,
    pub n_done: usize,
    pub mutated: bool,
    pub reach: &'a BTreeSet<Id>,
}
impl<'a> CbViewOwned<'a> {
    fn view(&self) -> CbView<'_> {
        CbView {
            sh: self.sh,
            a: self.a,
            root_mutable: self.root_mutable,
            finalize: self.finalize,
            constructing: self.constructing,
            phase: self.phase,
            acc: self.acc.clone(),
            fresh: self.fresh,
            handles: self.handles.clone(),
            colors: self.colors,
            n_done: self.n_done,
            mutated: self.mutated,
            reach: self.reach,
        }
    }
}

pub enum RootRef<'r, 'gc> {
    Shared(&'r RootBody<'gc>),
    Mut(&'r mut RootBody<'gc>),
}
impl<'r, 'gc> RootRef<'r, 'gc> {
    pub fn get(&self) -> &RootBody<'gc> {
        match self {
            RootRef::Shared(r) => r,
            RootRef::Mut(r) => r,
        }
    }
    pub fn get_mut(&mut self) -> Option<&mut RootBody<'gc>> {
        match self {
            RootRef::Shared(_) => None,
            RootRef::Mut(r) => Some(r),
        }
    }
}

/// Result of one callback body, read by the executor after the API call returns.
#[derive(Default, Debug)]
pub struct CbReport {
    pub ops_done: usize,
    /// number of objects forward barriers turned from unmarked to marked (hook), for the C10
    /// known finding
    pub fw_marked: u64,
    /// forward-barrier ops executed (bound used when the hook is silent)
    pub fw_ops: u64,
    pub only_barriers: bool,
    pub resurrected_dead: bool,
    pub resurrect_ops: u64,
    /// a debt decrease inside the callback was attributed to the C10 known finding
    pub known_decrease: bool,
    /// an op other than a resurrection that may change reachability or marks ran
    pub mutated: bool,
    pub mutated_by_resurrect: bool,
    pub allocated: u64,
}

pub struct Cb<'w, 'r, 'gc> {
    pub w: &'w mut World,
    pub a: Aid,
    pub mc: &'gc Mutation<'gc>,
    pub fc: Option<&'gc Finalization<'gc>>,
    pub root: RootRef<'r, 'gc>,
    pub map: BTreeMap<Id, AnyGc<'gc>>,
    pub fresh: BTreeSet<Id>,
    pub phase: Phase,
    pub constructing: bool,
    pub colors: BTreeMap<Id, Col>,
    pub reach0: BTreeSet<Id>,
    pub clean0: bool,
    pub rep: CbReport,
}

impl<'w, 'r, 'gc> Cb<'w, 'r, 'gc> {
    fn viol(&mut self, oracle: &str, detail: String) {
        self.w.violate(oracle, detail);
    }

    fn destructed(&self, id: Id) -> bool {
        self.w.sh.objs.get(&id).is_some_and(|o| o.toks.iter().any(|t| tok::drops(*t) > 0) || (o.toks.is_empty() && o.released))
    }
    fn released(&self, id: Id) -> bool {
        match self.w.sh.objs.get(&id) {
            Some(o) => o.released || o.block.is_some_and(|b| seam::active() && !seam::block(b).live),
            None => true,
        }
    }

    fn refresh_colors(&mut self) {
        if self.w.cfg.coverage {
            let snap = self.mc.verif_snapshot();
            self.colors = self.w.colors_of(&snap);
        }
    }
    fn color(&self, id: Id) -> u8 {
        self.colors.get(&id).map(|c| c.color).unwrap_or(9)
    }
    fn color_name(c: u8) -> &'static str {
        match c {
            0 => "white",
            1 => "whiteweak",
            2 => "gray",
            3 => "black",
            _ => "na",
        }
    }

    fn set_for(&self, s: SetRef) -> Option<DynamicRootSet<'gc>> {
        match s {
            SetRef::Root => Some(self.root.get().set),
            SetRef::Holder(h) => self.map.get(&h).and_then(|a| access::set_of(*a)),
        }
    }

    /// Check one object the callback is about to touch: it must be what the shadow says it is.
    /// Returns false (after recording the violation) if it must not be touched.
    fn check_object(&mut self, id: Id, any: AnyGc<'gc>, why: &str) -> bool {
        let Some(o) = self.w.sh.objs.get(&id) else {
            self.viol("H.shadow", format!("{why}: object {id} unknown to the shadow"));
            return false;
        };
        let (kind, addr, has_tok) = (o.kind, o.addr, !o.toks.is_empty());
        if self.released(id) {
            self.viol("C01.read", format!("{why}: object {id} is reachable but its block has been released"));
            return false;
        }
        if has_tok && self.destructed(id) {
            self.viol("C01.read", format!("{why}: object {id} is reachable but its value has been destructed"));
            return false;
        }
        if any.addr() != addr {
            self.viol("C01.read", format!("{why}: pointer to {id} has a different address than at allocation"));
            return false;
        }
        if access::kind_of(any) != kind {
            self.viol("C01.read", format!("{why}: pointer to {id} has kind {:?}, expected {kind:?}", access::kind_of(any)));
            return false;
        }
        if let Some(sid) = access::stored_id(any) {
            if sid != id {
                self.viol("C01.read", format!("{why}: object {id} reads back id {sid}"));
                return false;
            }
        }
        true
    }

    /// Lock-step traversal of the real graph from the root (and through every live handle whose
    /// set is reachable) against the shadow graph. Fills `map` with real pointers.
    pub fn read_all(&mut self, why: &str) {
        let a = self.a;
        let mut stack: Vec<(Id, AnyGc<'gc>)> = vec![];
        {
            let ar = self.w.sh.arena(a).clone();
            let root = self.root.get();
            for k in 0..ROOT_STRONG {
                match (root.slots[k], ar.root_strong[k]) {
                    (Some(g), Some(id)) => stack.push((id, g)),
                    (None, None) => {}
                    (r, s) => {
                        let (r, s) = (r.is_some(), s);
                        self.viol("C01.read", format!("{why}: root slot {k}: real is_some={r}, shadow {s:?}"));
                        return;
                    }
                }
            }
            for k in 0..ROOT_WEAK {
                match (root.weak[k], ar.root_weak[k]) {
                    (Some(wk), Some(id)) => {
                        if self.w.sh.objs.get(&id).map(|o| o.addr) != Some(wk.addr()) {
                            self.viol("C01.read", format!("{why}: root weak slot {k} does not point at {id}"));
                            return;
                        }
                    }
                    (None, None) => {}
                    (r, s) => {
                        let r = r.is_some();
                        self.viol("C01.read", format!("{why}: root weak slot {k}: real is_some={r}, shadow {s:?}"));
                        return;
                    }
                }
            }
        }
        let mut sets: Vec<(Id, DynamicRootSet<'gc>)> = vec![(self.w.sh.arena(a).root_set_inner, self.root.get().set)];
        let mut seen: BTreeSet<Id> = BTreeSet::new();
        loop {
            while let Some((id, any)) = stack.pop() {
                if !self.w.ok() {
                    return;
                }
                if seen.contains(&id) {
                    if self.map.get(&id).map(|m| m.addr()) != Some(any.addr()) {
                        self.viol("C01.read", format!("{why}: two paths to {id} give different pointers"));
                    }
                    continue;
                }
                if !self.check_object(id, any, why) {
                    return;
                }
                seen.insert(id);
                self.map.insert(id, any);
                let o = self.w.sh.objs[&id].clone();
                if o.kind == Kind::SetHolder {
                    if let (Some(inner), Some(set)) = (o.strong[0], access::set_of(any)) {
                        sets.push((inner, set));
                    }
                    continue;
                }
                for k in 0..o.kind.n_strong() {
                    match (access::read_strong(any, k), o.strong[k]) {
                        (Some(c), Some(cid)) => stack.push((cid, c)),
                        (None, None) => {}
                        (r, s) => {
                            let r = r.is_some();
                            self.viol("C01.read", format!("{why}: {id}.strong[{k}]: real is_some={r}, shadow {s:?}"));
                            return;
                        }
                    }
                }
                for k in 0..o.kind.n_weak() {
                    match (access::read_weak(any, k), o.weak[k]) {
                        (Some(wk), Some(t)) => {
                            if self.w.sh.objs.get(&t).map(|o| o.addr) != Some(wk.addr()) {
                                self.viol("C01.read", format!("{why}: {id}.weak[{k}] does not point at {t}"));
                                return;
                            }
                        }
                        (None, None) => {}
                        (r, s) => {
                            let r = r.is_some();
                            self.viol("C01.read", format!("{why}: {id}.weak[{k}]: real is_some={r}, shadow {s:?}"));
                            return;
                        }
                    }
                }
            }
            // fetch through every live handle of a set we can reach
            let Some((inner, set)) = sets.pop() else { break };
            if self.w.sh.objs.get(&inner).is_some_and(|o| o.released) || self.released(inner) {
                self.viol("C14.stashed-lost", format!("{why}: the object behind a reachable DynamicRootSet ({inner}) has been released"));
                return;
            }
            seen.insert(inner);
            let hs: Vec<(Hid, Id)> = self.w.handles.iter().filter(|(_, h)| self.w.sh.groups[&h.group].inner == inner).map(|(k, h)| (*k, h.obj)).collect();
            for (hid, obj) in hs {
                // the stashed object must be intact before we let fetch hand us a pointer to it
                if self.destructed(obj) || self.released(obj) {
                    self.viol("C14.stashed-lost", format!("{why}: object {obj} is stashed (handle {hid}) but has been destructed or released"));
                    return;
                }
                let h = &self.w.handles[&hid];
                let any = match &h.real {
                    RealHandle::Node(nh) => AnyGc::Node(set.fetch(nh)),
                    RealHandle::Field(fh) => AnyGc::Field(set.fetch(fh)),
                };
                if self.w.sh.objs.get(&obj).map(|o| o.addr) != Some(any.addr()) {
                    self.viol("C14.fetch-identity", format!("{why}: fetch through handle {hid} did not return the stashed object {obj}"));
                    return;
                }
                stack.push((obj, any));
            }
        }
    }

    /// Every pointer the callback obtained must still be valid when it ends (C03).
    pub fn revalidate(&mut self) {
        let items: Vec<(Id, AnyGc<'gc>)> = self.map.iter().map(|(k, v)| (*k, *v)).collect();
        for (id, any) in items {
            if self.released(id) {
                self.viol("C03.stale", format!("pointer to {id} obtained during the callback: block released before the callback ended"));
                return;
            }
            if self.destructed(id) {
                self.viol("C03.stale", format!("pointer to {id} obtained during the callback: value destructed before the callback ended"));
                return;
            }
            if let Some(sid) = access::stored_id(any) {
                if sid != id {
                    self.viol("C03.stale", format!("pointer to {id} obtained during the callback reads id {sid} at its end"));
                    return;
                }
            }
        }
    }

    fn view_owned(&self) -> CbViewOwned<'_> {
        CbViewOwned {
            sh: &self.w.sh,
            a: self.a,
            root_mutable: matches!(self.root, RootRef::Mut(_)),
            finalize: self.fc.is_some(),
            constructing: self.constructing,
            phase: self.phase,
            acc: self.map.keys().copied().collect(),
            fresh: &self.fresh,
            handles: self.w.handles.iter().map(|(k, h)| (*k, h.arena, h.obj, h.group)).collect(),
            colors: &self.colors,
            n_done: self.rep.ops_done,
            mutated: self.rep.mutated || self.rep.mutated_by_resurrect,
            reach: &self.reach0,
        }
    }

    /// Run the whole body: ReadAll, ops from `src`, ReadAll, revalidation.
    pub fn run(&mut self, src: &mut Src<'_>) {
        let _p = seam::pause();
        self.rep.only_barriers = true;
        if !self.constructing {
            self.read_all("callback start");
        }
        self.refresh_colors();
        while self.w.ok() {
            let op = {
                let me: &Cb<'w, 'r, 'gc> = self;
                src.next(|| me.view_owned())
            };
            let Some(op) = op else { break };
            self.exec_op(&op);
            self.rep.ops_done += 1;
        }
        if self.w.ok() {
            // a second traversal from scratch, then every pointer held
            let held = std::mem::take(&mut self.map);
            self.read_all("callback end");
            for (k, v) in held {
                self.map.entry(k).or_insert(v);
            }
        }
        if self.w.ok() {
            self.revalidate();
        }
    }

    fn skip(&mut self) {
        self.w.stats.ops_skipped += 1;
    }

    fn note_mutation(&mut self) {
        self.rep.mutated = true;
        self.rep.only_barriers = false;
        let rt = &mut self.w.rt[self.a as usize];
        rt.clean_since_wake = false;
        rt.dead_set = None;
        if self.phase != Phase::Sleeping {
            self.w.stats.flag("C01.mutation-mid-cycle");
        }
    }

    fn note_adoption(&mut self, child: Id) {
        if matches!(self.phase, Phase::Marking | Phase::Marked) {
            self.w.rt[self.a as usize].adopted_cur.insert(child);
        }
    }

    fn holder_any(&self, h: Holder) -> Option<Option<AnyGc<'gc>>> {
        match h {
            Holder::Root => Some(None),
            Holder::Obj(i) => self.map.get(&i).map(|a| Some(*a)),
        }
    }

    fn cover_write(&mut self, what: &str, parent: Option<Id>, child: Option<Id>) {
        if !self.w.cfg.coverage {
            return;
        }
        let pc = parent.map(|p| Self::color_name(self.color(p))).unwrap_or("root");
        let cc = match child {
            Some(c) if self.fresh.contains(&c) => "fresh",
            Some(c) => Self::color_name(self.color(c)),
            None => "none",
        };
        let name = format!("{what}|{}|{pc}|{cc}", phase_name(self.phase));
        self.w.sigmix(crate::rng::fnv(name.as_bytes()));
        self.w.stats.cell(name);
        if matches!(self.phase, Phase::Marking | Phase::Marked) && pc == "black" && child.is_some() {
            self.w.stats.flag("C06.adopt-into-marked");
        }
    }

    /// Count children a forward barrier turned from unmarked to marked (C10 known finding).
    fn forward_mark_probe(&mut self, child: Id, f: impl FnOnce(&mut Self)) {
        self.rep.fw_ops += 1;
        let addr = self.w.sh.objs.get(&child).map(|o| o.addr);
        let color_of = |me: &Self| {
            let snap = me.mc.verif_snapshot();
            snap.objects.iter().find(|o| Some(o.addr) == addr).map(|o| o.color).unwrap_or(9)
        };
        let before = color_of(self);
        f(self);
        let after = color_of(self);
        if before == 0 && after != 0 {
            self.rep.fw_marked += 1;
        }
        if self.w.cfg.coverage {
            self.refresh_colors();
        }
    }

    /// Execute one op and attribute any decrease of the allocation debt to it (C10).
    pub fn exec_op(&mut self, op: &Op) {
        let d0 = self.mc.metrics().allocation_debt();
        let fw0 = self.rep.fw_marked;
        self.exec_op_inner(op);
        if !self.w.ok() {
            return;
        }
        let d1 = self.mc.metrics().allocation_debt();
        if d1 < d0 {
            let marked = self.rep.fw_marked - fw0;
            let mf = self.w.sh.arena(self.a).pacing.mark;
            let expect = (d0 - mf * marked as f64).max(0.0);
            let tol = 1e-9 * (1.0 + d0.abs());
            if matches!(op, Op::Resurrect { .. }) {
                // resurrection is marking work done by the finalizer: collection work, not mutation
            } else if marked > 0 && (d1 - expect).abs() <= tol {
                // KNOWN FINDING: forward barriers mark the child at once and that marking is
                // credited like any other (DESIGN 6.4); identified by call site and exact amount
                self.w.known.insert(("C10".into(), "forward-barrier-pays-debt".into()));
                self.w.stats.known_c10_fw += 1;
                self.rep.known_decrease = true;
            } else {
                self.viol("C10.decrease", format!("allocation_debt went from {d0} to {d1} across {op:?} (forward barriers marked {marked} objects, mark_factor {mf})"));
            }
        }
    }

    fn exec_op_inner(&mut self, op: &Op) {
        self.w.stats.ops += 1;
        let a = self.a;
        let mc = self.mc;
        match op {
            Op::Alloc { id, kind } => {
                let n_ids = if *kind == Kind::SetHolder { 2 } else { 1 };
                if *kind == Kind::SetInner || (0..n_ids).any(|d| self.w.sh.objs.contains_key(&(id + d))) || tok::drops(*id) > 0 {
                    return self.skip();
                }
                self.alloc(*id, *kind);
                self.rep.only_barriers = false;
            }
            Op::Burst { first, n } => {
                for d in 0..*n as u32 {
                    let id = first + d;
                    if self.w.sh.objs.contains_key(&id) {
                        continue;
                    }
                    self.alloc(id, Kind::LeafLock);
                    self.map.remove(&id);
                    self.fresh.remove(&id);
                }
                self.rep.only_barriers = false;
                self.w.stats.flag("C03.burst");
            }
            Op::Link { holder, slot, child, route } => {
                let (Some(hany), Some(cany)) = (self.holder_any(*holder), self.map.get(child).copied()) else { return self.skip() };
                let slot = *slot as usize;
                match hany {
                    None => {
                        if slot >= ROOT_STRONG {
                            return self.skip();
                        }
                        let Some(r) = self.root.get_mut() else { return self.skip() };
                        r.slots[slot] = Some(cany);
                        self.cover_write("root-write", None, Some(*child));
                        self.w.sh.set_strong(a, Holder::Root, slot, Some(*child));
                        self.note_mutation();
                        self.note_adoption(*child);
                    }
                    Some(pany) => {
                        let Holder::Obj(pid) = *holder else { unreachable!() };
                        let kind = access::kind_of(pany);
                        if slot >= kind.writable_strong() {
                            return self.skip();
                        }
                        let what = format!("link:{kind:?}:{}", route_label(kind, slot, *route));
                        self.cover_write(&what, Some(pid), Some(*child));
                        let wrote = if access::is_forward_route(kind, *route) {
                            let mut res = Wrote::Refused;
                            self.forward_mark_probe(*child, |me| {
                                res = access::write_strong(me.mc, pany, pid, slot, *route, Some(cany));
                            });
                            res
                        } else {
                            access::write_strong(mc, pany, pid, slot, *route, Some(cany))
                        };
                        let was = self.w.sh.objs[&pid].strong[slot];
                        match wrote {
                            Wrote::Done => {
                                if (kind == Kind::Once || (kind == Kind::Field && slot == FIELD_ONCE_SLOT)) && was.is_some() {
                                    self.viol("H.once", format!("set-once slot of {pid} accepted a second value"));
                                }
                                self.w.sh.set_strong(a, *holder, slot, Some(*child));
                                self.note_mutation();
                                self.note_adoption(*child);
                            }
                            Wrote::Refused => {
                                self.rep.only_barriers = false;
                            }
                        }
                    }
                }
            }
            Op::Unlink { holder, slot, route } => {
                let Some(hany) = self.holder_any(*holder) else { return self.skip() };
                let slot = *slot as usize;
                match hany {
                    None => {
                        if slot >= ROOT_STRONG {
                            return self.skip();
                        }
                        let Some(r) = self.root.get_mut() else { return self.skip() };
                        r.slots[slot] = None;
                        self.w.sh.set_strong(a, Holder::Root, slot, None);
                        self.note_mutation();
                    }
                    Some(pany) => {
                        let Holder::Obj(pid) = *holder else { unreachable!() };
                        let kind = access::kind_of(pany);
                        if slot >= kind.writable_strong() || kind == Kind::Once || (kind == Kind::Field && slot == FIELD_ONCE_SLOT) {
                            return self.skip();
                        }
                        if access::write_strong(mc, pany, pid, slot, *route, None) == Wrote::Done {
                            self.w.sh.set_strong(a, *holder, slot, None);
                            self.note_mutation();
                        }
                    }
                }
            }
            Op::LinkWeak { holder, slot, child, route } => {
                let (Some(hany), Some(cany)) = (self.holder_any(*holder), self.map.get(child).copied()) else { return self.skip() };
                let slot = *slot as usize;
                let wk = cany.downgrade();
                match hany {
                    None => {
                        if slot >= ROOT_WEAK {
                            return self.skip();
                        }
                        let Some(r) = self.root.get_mut() else { return self.skip() };
                        r.weak[slot] = Some(wk);
                        self.cover_write("root-write-weak", None, Some(*child));
                        self.w.sh.set_weak(a, Holder::Root, slot, Some(*child));
                        self.rep.mutated = true;
                        self.rep.only_barriers = false;
                    }
                    Some(pany) => {
                        let Holder::Obj(pid) = *holder else { unreachable!() };
                        let kind = access::kind_of(pany);
                        if slot >= kind.n_weak() {
                            return self.skip();
                        }
                        let what = format!("linkweak:{kind:?}:{}", route_label(kind, 100 + slot, *route));
                        self.cover_write(&what, Some(pid), Some(*child));
                        let wrote = if access::is_forward_route(kind, *route) {
                            let mut res = Wrote::Refused;
                            self.forward_mark_probe(*child, |me| {
                                res = access::write_weak(me.mc, pany, slot, *route, Some(wk));
                            });
                            res
                        } else {
                            access::write_weak(mc, pany, slot, *route, Some(wk))
                        };
                        if wrote == Wrote::Done {
                            self.w.sh.set_weak(a, *holder, slot, Some(*child));
                        }
                        // a weak edge does not change strong reachability, but barriers may mark
                        self.rep.mutated = true;
                        self.rep.only_barriers = false;
                        self.w.rt[a as usize].dead_set = None;
                    }
                }
            }
            Op::UnlinkWeak { holder, slot, route } => {
                let Some(hany) = self.holder_any(*holder) else { return self.skip() };
                let slot = *slot as usize;
                match hany {
                    None => {
                        if slot >= ROOT_WEAK {
                            return self.skip();
                        }
                        let Some(r) = self.root.get_mut() else { return self.skip() };
                        r.weak[slot] = None;
                        self.w.sh.set_weak(a, Holder::Root, slot, None);
                    }
                    Some(pany) => {
                        let kind = access::kind_of(pany);
                        if slot >= kind.n_weak() {
                            return self.skip();
                        }
                        if access::write_weak(mc, pany, slot, *route, None) == Wrote::Done {
                            self.w.sh.set_weak(a, *holder, slot, None);
                        }
                    }
                }
                self.rep.mutated = true;
                self.rep.only_barriers = false;
                self.w.rt[a as usize].dead_set = None;
            }
            Op::Upgrade { holder, slot, then } => self.op_upgrade(*holder, *slot as usize, Some(*then)),
            Op::IsDropped { holder, slot } => self.op_upgrade(*holder, *slot as usize, None),
            Op::Stash { set, obj, handle } => {
                let (Some(s), Some(oany)) = (self.set_for(*set), self.map.get(obj).copied()) else { return self.skip() };
                let Some(inner) = self.w.sh.set_inner(a, *set) else { return self.skip() };
                if self.w.handles.contains_key(handle) || self.w.sh.groups.values().any(|_| false) {
                    return self.skip();
                }
                let real = match oany {
                    AnyGc::Node(g) => {
                        let _t = seam::track();
                        RealHandle::Node(s.stash::<NodeRootable>(mc, g))
                    }
                    AnyGc::Field(g) => {
                        let _t = seam::track();
                        RealHandle::Field(s.stash::<FieldRootable>(mc, g))
                    }
                    _ => return self.skip(),
                };
                self.cover_write("stash", Some(inner), Some(*obj));
                let group = self.w.sh.add_group(inner, *obj);
                self.w.sh.handles.insert(*handle, group);
                self.w.sh.next_hid = self.w.sh.next_hid.max(handle + 1);
                self.w.handles.insert(*handle, HandleState { real, group, arena: a, obj: *obj });
                self.w.stats.stashes += 1;
                self.note_adoption(*obj);
                if self.phase != Phase::Sleeping {
                    self.w.stats.flag("C14.handle-op-mid-cycle");
                }
                self.note_mutation();
            }
            Op::Probe { handle, set } => {
                let Some(s) = self.set_for(*set) else { return self.skip() };
                let Some(inner) = self.w.sh.set_inner(a, *set) else { return self.skip() };
                let Some(h) = self.w.handles.get(handle) else { return self.skip() };
                let group = self.w.sh.groups[&h.group].clone();
                let expected = group.inner == inner && h.arena == a;
                let obj = h.obj;
                self.w.stats.probes += 1;
                if !expected {
                    self.w.stats.foreign_probes += 1;
                    self.w.stats.flag("C14.foreign");
                }
                // a handle we expect to resolve must resolve to an intact object
                if expected && (self.destructed(obj) || self.released(obj)) {
                    self.viol("C14.stashed-lost", format!("object {obj} is stashed (handle {handle}) but has been destructed or released"));
                    return;
                }
                let h = &self.w.handles[handle];
                let (contains, tf, fetched): (bool, Option<usize>, Result<usize, String>) = match &h.real {
                    RealHandle::Node(nh) => (
                        s.contains(nh),
                        s.try_fetch(nh).ok().map(|g| Gc::as_ptr(g) as *const () as usize),
                        std::panic::catch_unwind(std::panic::AssertUnwindSafe(|| Gc::as_ptr(s.fetch(nh)) as *const () as usize)).map_err(|p| panic_message(&p)),
                    ),
                    RealHandle::Field(fh) => (
                        s.contains(fh),
                        s.try_fetch(fh).ok().map(|g| Gc::as_ptr(g) as *const () as usize),
                        std::panic::catch_unwind(std::panic::AssertUnwindSafe(|| Gc::as_ptr(s.fetch(fh)) as *const () as usize)).map_err(|p| panic_message(&p)),
                    ),
                };
                let addr = self.w.sh.objs.get(&obj).map(|o| o.addr);
                if contains != expected {
                    self.viol("C14.foreign", format!("contains(handle {handle}) = {contains}, expected {expected}"));
                } else if tf.is_some() != expected {
                    self.viol("C14.foreign", format!("try_fetch(handle {handle}).is_ok() = {}, expected {expected}", tf.is_some()));
                } else if fetched.is_ok() != expected {
                    self.viol("C14.foreign", format!("fetch(handle {handle}) returned={}, expected to {}", fetched.is_ok(), if expected { "return" } else { "panic" }));
                } else if expected && (tf != addr || fetched.as_ref().ok().copied() != addr) {
                    self.viol("C14.fetch-identity", format!("fetch / try_fetch through handle {handle} did not return the stashed object {obj}"));
                } else if let Err(m) = &fetched {
                    if !m.contains("mismatched root set") {
                        self.viol("C14.foreign", format!("fetch of a foreign handle panicked with an undocumented message: {m}"));
                    }
                }
            }
            Op::BarrierOnly { form, parent, child } => self.op_barrier_only(*form, *parent, *child),
            Op::IsDead { holder, slot, weak } => self.op_is_dead(*holder, *slot as usize, *weak),
            Op::Resurrect { holder, slot, weak } => self.op_resurrect(*holder, *slot as usize, *weak),
            Op::Panic => {
                self.w.stats.callback_panics += 1;
                std::panic::panic_any(Injected);
            }
        }
    }

    fn alloc(&mut self, id: Id, kind: Kind) {
        let a = self.a;
        let since = seam::mark();
        let any = access::alloc(self.mc, kind, id);
        let ev = self.w.ev_index as u32;
        let mut register = |w: &mut World, id: Id, kind: Kind, addr: usize, toks: Vec<Id>| {
            let block = seam::attribute(addr, since, id);
            if block.is_none() && seam::active() {
                w.violate("H.seam", format!("no allocator block found for new object {id}"));
            }
            let mut strong = vec![None; kind.n_strong()];
            if kind == Kind::SetHolder {
                strong[0] = Some(id + 1);
            }
            w.sh.objs.insert(id, Obj { kind, arena: a, strong, weak: vec![None; kind.n_weak()], toks, addr, block, destructed: false, released: false, born_event: ev });
            w.addr2id.insert(addr, id);
            w.sh.next_id = w.sh.next_id.max(id + 1);
            w.stats.allocs += 1;
            w.rt[a as usize].allocs += 1;
            if let Some((_, n)) = w.rt[a as usize].wake.as_mut() {
                *n += 1;
            }
            if let Some((_, n)) = w.rt[a as usize].sleep.as_mut() {
                *n += 1;
            }
        };
        if kind == Kind::SetHolder {
            // the set's hidden Gc object: the second newest object in the collector's list
            let snap = self.mc.verif_snapshot();
            if snap.objects.len() >= 2 && snap.objects[0].addr == any.addr() {
                register(self.w, id + 1, Kind::SetInner, snap.objects[1].addr, vec![]);
            } else {
                self.w.violate("H.seam", format!("cannot locate the Gc object of the DynamicRootSet of {id}"));
            }
        }
        register(self.w, id, kind, any.addr(), if kind.has_tok() { vec![id] } else { vec![] });
        self.rep.allocated += 1;
        // C17.align / extent at allocation
        if let Some(b) = self.w.sh.objs[&id].block {
            let blk = seam::block(b);
            if any.addr() < blk.user || any.addr() > blk.user + blk.size {
                self.w.violate("C17.extent", format!("value of {id} lies outside the block the allocator handed out"));
            }
        }
        self.map.insert(id, any);
        self.fresh.insert(id);
        if self.phase == Phase::Sweeping {
            self.w.stats.flag("alloc-during-sweep");
        }
        if self.w.cfg.coverage {
            self.w.stats.cell(format!("alloc|{kind:?}|{}", phase_name(self.phase)));
        }
    }

    fn read_weak_slot(&self, holder: Holder, slot: usize) -> Option<AnyWeak<'gc>> {
        match holder {
            Holder::Root => self.root.get().weak.get(slot).copied().flatten(),
            Holder::Obj(i) => {
                let any = *self.map.get(&i)?;
                if slot >= access::kind_of(any).n_weak() {
                    return None;
                }
                access::read_weak(any, slot)
            }
        }
    }
    fn read_strong_slot(&self, holder: Holder, slot: usize) -> Option<AnyGc<'gc>> {
        match holder {
            Holder::Root => self.root.get().slots.get(slot).copied().flatten(),
            Holder::Obj(i) => {
                let any = *self.map.get(&i)?;
                if slot >= access::kind_of(any).n_strong() {
                    return None;
                }
                access::read_strong(any, slot)
            }
        }
    }

    /// Walk the strong closure of a pointer obtained outside the root traversal (an upgraded or
    /// resurrected one), checking every member, and add it to the pointers held.
    fn traverse_from(&mut self, id: Id, any: AnyGc<'gc>, oracle: &str) {
        let mut stack = vec![(id, any)];
        let mut seen = BTreeSet::new();
        while let Some((i, g)) = stack.pop() {
            if !seen.insert(i) {
                continue;
            }
            let Some(o) = self.w.sh.objs.get(&i).cloned() else { continue };
            if self.released(i) || (!o.toks.is_empty() && self.destructed(i)) {
                self.viol(oracle, format!("closure of {id} contains {i}, which has been destructed or released"));
                return;
            }
            if g.addr() != o.addr || access::stored_id(g).is_some_and(|s| s != i) {
                self.viol(oracle, format!("closure of {id}: member {i} does not read back as itself"));
                return;
            }
            self.map.entry(i).or_insert(g);
            if o.kind == Kind::SetHolder {
                continue;
            }
            for k in 0..o.kind.n_strong() {
                match (access::read_strong(g, k), o.strong[k]) {
                    (Some(c), Some(cid)) => stack.push((cid, c)),
                    (None, None) => {}
                    _ => {
                        self.viol(oracle, format!("closure of {id}: {i}.strong[{k}] disagrees with the shadow"));
                        return;
                    }
                }
            }
        }
    }

    fn op_upgrade(&mut self, holder: Holder, slot: usize, then: Option<Then>) {
        let a = self.a;
        let Some(Some(t)) = self.w.sh.holder_weak(a, holder, slot) else { return self.skip() };
        if self.holder_any(holder).is_none() {
            return self.skip();
        }
        let Some(wk) = self.read_weak_slot(holder, slot) else { return self.skip() };
        // before any query: the target's block must still be allocated
        if self.released(t) {
            self.viol("C05.shell-released", format!("weak pointer {holder:?}.weak[{slot}] -> {t}: target block already released"));
            return;
        }
        let has_tok = !self.w.sh.objs[&t].toks.is_empty();
        let destructed = self.destructed(t);
        let reach_now = self.w.sh.reach(a);
        let state = if reach_now.contains(&t) {
            "reachable"
        } else if destructed {
            "destructed"
        } else if self.fresh.contains(&t) {
            "fresh"
        } else {
            "weak-only"
        };
        if state != "reachable" || self.phase != Phase::Sleeping {
            self.w.stats.flag("C05.nontrivial-query");
        }
        let pend = self.colors.get(&t).map(|c| if c.pending { "pending" } else { "passed" }).unwrap_or("na");
        let isd = wk.is_dropped();
        if has_tok && isd != destructed {
            self.viol("C05.is-dropped", format!("is_dropped({t}) = {isd} but the destructor has{} run", if destructed { "" } else { " not" }));
            return;
        }
        if isd && reach_now.contains(&t) {
            self.viol("C05.is-dropped", format!("is_dropped({t}) = true for a strongly reachable target"));
            return;
        }
        let Some(then) = then else {
            self.w.stats.cell(format!("weakq|is_dropped|{state}|{}|{pend}", phase_name(self.phase)));
            return;
        };
        self.w.stats.upgrades += 1;
        let up = wk.upgrade(self.mc);
        self.w.stats.cell(format!("weakq|upgrade-{}|{state}|{}|{pend}", if up.is_some() { "some" } else { "none" }, phase_name(self.phase)));
        self.w.sigmix(0x06 + up.is_some() as u64 * 2 + destructed as u64);
        match up {
            Some(g) => {
                if destructed || isd {
                    self.viol("C05.upgrade-destructed", format!("upgrade of weak pointer to {t} succeeded although its value has been destructed"));
                    return;
                }
                if g.addr() != self.w.sh.objs[&t].addr || access::stored_id(g).is_some_and(|s| s != t) {
                    self.viol("C05.closure", format!("upgraded pointer to {t} does not read back as {t}"));
                    return;
                }
                match then {
                    Then::Discard => {}
                    Then::Traverse => self.traverse_from(t, g, "C05.closure"),
                    Then::Store { holder: h2, slot: s2, route } => {
                        self.traverse_from(t, g, "C05.closure");
                        if self.w.ok() {
                            self.w.stats.flag("C05.stored");
                            self.w.rt[self.a as usize].up_stored.insert(t);
                            self.exec_op_inner(&Op::Link { holder: h2, slot: s2, child: t, route });
                        }
                    }
                }
            }
            None => {
                if reach_now.contains(&t) {
                    self.viol("C05.upgrade-refused-reachable", format!("upgrade of weak pointer to strongly reachable {t} failed in phase {}", phase_name(self.phase)));
                } else if has_tok && !destructed && self.phase != Phase::Sweeping {
                    self.viol("C05.upgrade-refused-no-reason", format!("upgrade of weak pointer to {t} failed: value not destructed and phase {}", phase_name(self.phase)));
                } else if !destructed {
                    self.w.stats.upgrades_refused_live += 1;
                }
            }
        }
    }

    fn op_barrier_only(&mut self, form: BarrierForm, parent: Option<Id>, child: Option<Id>) {
        let p = parent.and_then(|p| self.map.get(&p).copied());
        let c = child.and_then(|c| self.map.get(&c).copied());
        if parent.is_some() && p.is_none() || child.is_some() && c.is_none() {
            return self.skip();
        }
        let mc = self.mc;
        let what = format!("barrier:{form:?}:{}", parent.and_then(|p| self.w.sh.objs.get(&p)).map(|o| if o.kind.needs_trace() { "tracing" } else { "nontracing" }).unwrap_or("none"));
        self.cover_write(&what, parent, child);
        if matches!(self.phase, Phase::Marking | Phase::Marked) {
            self.w.stats.flag("C10.barrier-during-marking");
        }
        let is_forward = matches!(form, BarrierForm::ForwardSome | BarrierForm::ForwardNone | BarrierForm::ForwardWeakSome | BarrierForm::ForwardWeakNone);
        let call = move |_me: &mut Self| match (form, p, c) {
            (BarrierForm::BackwardSome, Some(p), Some(c)) => mc.backward_barrier(p.erase(), Some(c.erase())),
            (BarrierForm::BackwardNone, Some(p), _) => mc.backward_barrier(p.erase(), None),
            (BarrierForm::BackwardWeak, Some(p), Some(c)) => mc.backward_barrier_weak(p.erase(), c.downgrade().erase()),
            (BarrierForm::ForwardSome, Some(p), Some(c)) => mc.forward_barrier(Some(p.erase()), c.erase()),
            (BarrierForm::ForwardNone, _, Some(c)) => mc.forward_barrier(None, c.erase()),
            (BarrierForm::ForwardWeakSome, Some(p), Some(c)) => mc.forward_barrier_weak(Some(p.erase()), c.downgrade().erase()),
            (BarrierForm::ForwardWeakNone, _, Some(c)) => mc.forward_barrier_weak(None, c.downgrade().erase()),
            (BarrierForm::Write, Some(p), _) => access::touch(mc, p),
            (BarrierForm::Touch, Some(p), _) => access::touch(mc, p),
            _ => {}
        };
        // barrier-only ops leave `only_barriers` as it is, but they may mark: finalize exactness off
        self.rep.mutated = true;
        self.w.rt[self.a as usize].dead_set = None;
        self.w.rt[self.a as usize].clean_since_wake = false;
        let res = std::panic::catch_unwind(std::panic::AssertUnwindSafe(|| {
            if is_forward && child.is_some() {
                self.forward_mark_probe(child.unwrap(), call);
            } else {
                call(self);
            }
        }));
        if let Err(e) = res {
            let m = panic_message(&e);
            self.viol("C06.panic", format!("barrier {form:?} (parent {parent:?}, child {child:?}) panicked: {m}"));
        }
    }

    fn op_is_dead(&mut self, holder: Holder, slot: usize, weak: bool) {
        let Some(fc) = self.fc else { return self.skip() };
        if self.rep.mutated || self.rep.mutated_by_resurrect || self.holder_any(holder).is_none() {
            // exactness is only promised at handout; after any op that may mark, skip the query
            return self.skip();
        }
        let a = self.a;
        let t = if weak { self.w.sh.holder_weak(a, holder, slot) } else { self.w.sh.holder_strong(a, holder, slot) };
        let Some(Some(t)) = t else { return self.skip() };
        if self.released(t) {
            self.viol("C05.shell-released", format!("finalize: target {t} of {holder:?}[{slot}] already released"));
            return;
        }
        let dead = if weak {
            let Some(wk) = self.read_weak_slot(holder, slot) else { return self.skip() };
            wk.is_dead(fc)
        } else {
            let Some(g) = self.read_strong_slot(holder, slot) else { return self.skip() };
            g.is_dead(fc)
        };
        self.w.stats.isdead_queries += 1;
        let reachable = self.reach0.contains(&t);
        if !reachable {
            self.w.stats.flag("C07.queried-dead");
        }
        if reachable && dead {
            self.viol("C07.reachable-dead", format!("is_dead({t}) = true at handout although {t} is strongly reachable"));
            return;
        }
        if self.clean0 {
            self.w.stats.isdead_exact += 1;
            if dead == reachable {
                self.viol("C07.exact", format!("no mutation since marking began, but is_dead({t}) = {dead} and reachable = {reachable}"));
            }
        }
        self.w.stats.cell(format!("isdead|{}|{}|{}", if weak { "weak" } else { "strong" }, if reachable { "reachable" } else { "unreachable" }, if self.clean0 { "exact" } else { "onesided" }));
    }

    fn op_resurrect(&mut self, holder: Holder, slot: usize, weak: bool) {
        let Some(fc) = self.fc else { return self.skip() };
        if self.holder_any(holder).is_none() {
            return self.skip();
        }
        let a = self.a;
        let t = if weak { self.w.sh.holder_weak(a, holder, slot) } else { self.w.sh.holder_strong(a, holder, slot) };
        let Some(Some(t)) = t else { return self.skip() };
        if self.released(t) {
            self.viol("C05.shell-released", format!("finalize: target {t} of {holder:?}[{slot}] already released"));
            return;
        }
        let destructed = self.destructed(t);
        let has_tok = !self.w.sh.objs[&t].toks.is_empty();
        self.rep.resurrect_ops += 1;
        self.rep.mutated_by_resurrect = true;
        self.rep.only_barriers = false;
        self.w.rt[a as usize].dead_set = None;
        let (was_dead, got) = if weak {
            let Some(wk) = self.read_weak_slot(holder, slot) else { return self.skip() };
            let was_dead = wk.is_dead(fc);
            let r = wk.resurrect(fc);
            if has_tok && r.is_none() != destructed {
                self.viol("C07.resurrect-result", format!("resurrect({t}) returned {} but the value has{} been destructed", if r.is_some() { "Some" } else { "None" }, if destructed { "" } else { " not" }));
                return;
            }
            if r.is_some() && wk.is_dead(fc) {
                self.viol("C07.resurrect-result", format!("{t} still reports dead right after being resurrected"));
                return;
            }
            (was_dead, r)
        } else {
            if destructed {
                return self.skip();
            }
            let Some(g) = self.read_strong_slot(holder, slot) else { return self.skip() };
            let was_dead = g.is_dead(fc);
            g.resurrect(fc);
            if g.is_dead(fc) {
                self.viol("C07.resurrect-result", format!("{t} still reports dead right after being resurrected"));
                return;
            }
            (was_dead, Some(g))
        };
        self.w.stats.resurrections += 1;
        if let Some(g) = got {
            if g.addr() != self.w.sh.objs[&t].addr {
                self.viol("C07.resurrect-result", format!("resurrect({t}) returned a pointer to something else"));
                return;
            }
            // protected for the rest of the cycle, with everything reachable from it
            self.w.sh.arena_mut(a).resurrected.insert(t);
            if was_dead {
                self.rep.resurrected_dead = true;
                self.w.stats.flag("C07.resurrected-dead");
            }
            self.traverse_from(t, g, "C07.resurrected-lost");
        }
        self.w.stats.cell(format!("resurrect|{}|{}", if weak { "weak" } else { "strong" }, if was_dead { "dead" } else { "marked" }));
    }
}

pub fn route_label(kind: Kind, slot: usize, route: Route) -> String {
    match kind {
        Kind::Field => format!("slot{slot}"),
        _ => format!("{route:?}"),
    }
}
