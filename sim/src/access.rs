//! Kind-specific allocation, reads and writes. Every write goes through a sanctioned route of the
//! real API; the slot index (Field) or the `Route` (Node, Cell, Once, Raw) selects which.

use std::cell::Cell;
use std::collections::{BTreeMap, HashMap, VecDeque};

use gc_arena::{
    DynamicRootSet, Gc, GcSliceBuilder, GcSliceWithHeaderBuilder, Lock, Mutation, RefLock, SliceWithHeader,
    barrier::{field, unlock},
    lock::OnceLock,
    unsize,
};

use crate::ops::{Conv, Id, Kind, Route};
use crate::payload::*;
use crate::seam;
use crate::tok::{FaultPoint, Tok};

/// The canonical (typed, fat) representation of a pointer, whatever form it was stored in.
pub fn canon<'gc>(any: AnyGc<'gc>) -> AnyGc<'gc> {
    match any {
        // SAFETY: NodeE / NodeD are only ever made from a Gc<RefLock<NodeBody>> (see `convert`)
        AnyGc::NodeE(g) => AnyGc::Node(unsafe { Gc::cast::<RefLock<NodeBody<'gc>>>(g) }),
        AnyGc::NodeD(g) => AnyGc::Node(unsafe { Gc::cast::<RefLock<NodeBody<'gc>>>(g) }),
        AnyGc::NodeM(g) => AnyGc::Node(Gc::erase_kind(g)),
        AnyGc::ThinSlice(g) => AnyGc::Slice(Gc::as_fat(g)),
        AnyGc::ThinSwh(g) => AnyGc::Swh(Gc::as_fat(g)),
        other => other,
    }
}

/// Convert a canonical pointer into the representation it is to be stored in (C19). Returns the
/// converted pointer and, if a conversion visibly changed the pointer, what went wrong.
pub fn convert<'gc>(mc: &Mutation<'gc>, any: AnyGc<'gc>, conv: Conv) -> (AnyGc<'gc>, Option<String>) {
    let any = canon(any);
    let addr = any.addr();
    let (out, mut err): (AnyGc<'gc>, Option<String>) = match (any, conv) {
        (AnyGc::Node(g), Conv::Erase) => {
            let e = Gc::erase(g);
            (AnyGc::NodeE(e), (!Gc::ptr_eq(e, Gc::erase(g))).then(|| "erase: not ptr_eq".to_string()))
        }
        (AnyGc::Node(g), Conv::Unsize) => {
            let d: Gc<'gc, dyn DynNode<'gc> + 'gc> = unsize!(g => dyn DynNode<'gc> + 'gc);
            let e = if d.dyn_id() != g.borrow().id { Some("unsize!: the trait object reads a different value".to_string()) } else { None };
            (AnyGc::NodeD(d), e)
        }
        (AnyGc::Node(g), Conv::Raw) => {
            let back = unsafe { Gc::from_ptr(Gc::as_ptr(g)) };
            (AnyGc::Node(back), (!Gc::ptr_eq(back, g)).then(|| "as_ptr -> from_ptr: not ptr_eq".to_string()))
        }
        (AnyGc::Node(g), Conv::Kind) if node_tag_of(g.borrow().id) != 0 => {
            // SAFETY: nodes with such an id were allocated through
            // GcBuilder::<_, NodeTag>::new_with_type_meta (access::alloc), i.e. with this very kind
            let m: Gc<'gc, RefLock<NodeBody<'gc>>, KNodeM> = unsafe { Gc::from_ptr_with_kind(Gc::as_ptr(g)) };
            let back = Gc::erase_kind(m);
            let e = if !Gc::ptr_eq(back, g) {
                Some("from_ptr_with_kind -> erase_kind: not ptr_eq".to_string())
            } else if m.borrow().id != g.borrow().id {
                Some("a pointer given back its allocation kind reads a different value".to_string())
            } else {
                None
            };
            (AnyGc::NodeM(m), e)
        }
        (AnyGc::Field(g), Conv::Raw) => {
            let back = unsafe { Gc::from_ptr(Gc::as_ptr(g)) };
            (AnyGc::Field(back), (!Gc::ptr_eq(back, g)).then(|| "as_ptr -> from_ptr: not ptr_eq".to_string()))
        }
        (AnyGc::Slice(g), Conv::Thin) => {
            let t = Gc::as_thin(g);
            let e = if t.len() != g.len() { Some(format!("as_thin: length {} became {}", g.len(), t.len())) } else { None };
            (AnyGc::ThinSlice(t), e)
        }
        (AnyGc::Swh(g), Conv::Thin) => {
            let t = Gc::as_thin(g);
            let e = if t.slice.len() != g.slice.len() || t.header.id != g.header.id { Some("as_thin: header or length changed".to_string()) } else { None };
            (AnyGc::ThinSwh(t), e)
        }
        (a, Conv::Weak) => match a.downgrade().upgrade(mc) {
            Some(u) => (u, None),
            // refused (Sweeping): keep the original pointer
            None => (a, None),
        },
        (a, _) => (a, None),
    };
    if out.addr() != addr && err.is_none() {
        err = Some(format!("{conv:?}: the converted pointer has a different address"));
    }
    (out, err)
}

/// The weak pointer to a canonical strong pointer, in the representation it is to be stored in
/// (C19): conversions applied on the weak side (`GcWeak::erase`, `as_ptr` / `from_ptr`,
/// `from_ptr_with_kind`) or on the strong side before downgrading (`unsize!`, `as_thin`).
pub fn convert_weak<'gc>(any: AnyGc<'gc>, conv: Conv) -> (AnyWeak<'gc>, Option<String>) {
    use gc_arena::GcWeak;
    let any = canon(any);
    let addr = any.addr();
    let (out, mut err): (AnyWeak<'gc>, Option<String>) = match (any, conv) {
        (AnyGc::Node(g), Conv::Erase) => {
            let w = Gc::downgrade(g);
            let e = GcWeak::erase(w);
            // SAFETY: the erased weak pointer came from a weak pointer to this very type
            let back = unsafe { GcWeak::cast::<RefLock<NodeBody<'gc>>>(e) };
            let bad = !GcWeak::ptr_eq(back, w) || !GcWeak::ptr_eq(e, Gc::downgrade(Gc::erase(g)));
            (AnyWeak::NodeE(e), bad.then(|| "GcWeak::erase / cast: not ptr_eq to the original weak pointer".to_string()))
        }
        (AnyGc::Node(g), Conv::Unsize) => {
            let d: Gc<'gc, dyn DynNode<'gc> + 'gc> = unsize!(g => dyn DynNode<'gc> + 'gc);
            (AnyWeak::NodeD(Gc::downgrade(d)), None)
        }
        (AnyGc::Node(g), Conv::Raw) => {
            let w = Gc::downgrade(g);
            // SAFETY: the pointer comes from as_ptr of a weak pointer of the default kind
            let back = unsafe { GcWeak::from_ptr(w.as_ptr()) };
            (AnyWeak::Node(back), (!GcWeak::ptr_eq(back, w)).then(|| "GcWeak::as_ptr -> from_ptr: not ptr_eq".to_string()))
        }
        (AnyGc::Node(g), Conv::Kind) if node_tag_of(g.borrow().id) != 0 => {
            let w = Gc::downgrade(g);
            // SAFETY: nodes with such an id were allocated with this very kind (access::alloc)
            let m: GcWeak<'gc, RefLock<NodeBody<'gc>>, KNodeM> = unsafe { GcWeak::from_ptr_with_kind(w.as_ptr()) };
            (AnyWeak::NodeM(m), (m.as_ptr() != w.as_ptr()).then(|| "GcWeak::from_ptr_with_kind: address changed".to_string()))
        }
        (AnyGc::Field(g), Conv::Raw) => {
            let w = Gc::downgrade(g);
            let back = unsafe { GcWeak::from_ptr(w.as_ptr()) };
            (AnyWeak::Field(back), (!GcWeak::ptr_eq(back, w)).then(|| "GcWeak::as_ptr -> from_ptr: not ptr_eq".to_string()))
        }
        (AnyGc::Slice(g), Conv::Thin) => (AnyWeak::ThinSlice(Gc::downgrade(Gc::as_thin(g))), None),
        (AnyGc::Swh(g), Conv::Thin) => (AnyWeak::ThinSwh(Gc::downgrade(Gc::as_thin(g))), None),
        (a, _) => (a.downgrade(), None),
    };
    if out.addr() != addr && err.is_none() {
        err = Some(format!("{conv:?}: the converted weak pointer has a different address"));
    }
    (out, err)
}

pub fn kind_of(any: AnyGc<'_>) -> Kind {
    match canon(any) {
        AnyGc::Node(_) => Kind::Node,
        AnyGc::Bag(_) => Kind::Bag,
        AnyGc::ZLeaf(_) => Kind::ZLeaf,
        AnyGc::SwhPod(g) => Kind::SwhPod { len: g.slice.len() as u8 },
        AnyGc::CellP(_) => Kind::CellP,
        AnyGc::Leaky(_) => Kind::Leaky,
        AnyGc::CopySlice(g) => Kind::CopySlice { len: g.len() as u8 },
        AnyGc::CopySwh(g) => Kind::CopySwh { len: g.slice.len() as u8 },
        AnyGc::Field(_) => Kind::Field,
        AnyGc::Raw(_) => Kind::Raw,
        AnyGc::Cell(_) => Kind::Cell,
        AnyGc::Once(_) => Kind::Once,
        AnyGc::Leaf(_) => Kind::Leaf,
        AnyGc::LeafLock(_) => Kind::LeafLock,
        AnyGc::LeafStatic(_) => Kind::LeafStatic,
        AnyGc::SetHolder(_) => Kind::SetHolder,
        AnyGc::Slice(g) => Kind::Slice { len: g.len() as u8 },
        AnyGc::Swh(g) => Kind::Swh { len: g.slice.len() as u8 },
        // what an opaque leaf is (layout entry, builder product, ZstCache object) is in the shadow
        AnyGc::Opaque(_) => Kind::Lay { t: 255, len: 0 },
        AnyGc::ThinSlice(_) | AnyGc::ThinSwh(_) | AnyGc::NodeE(_) | AnyGc::NodeD(_) | AnyGc::NodeM(_) => unreachable!(),
    }
}

/// The id the object stores about itself, where it stores one.
pub fn stored_id(any: AnyGc<'_>) -> Option<Id> {
    match canon(any) {
        AnyGc::Node(g) => Some(g.borrow().id),
        AnyGc::Bag(g) => Some(g.borrow().id),
        // a leaked guard: nothing can be read through the lock any more
        AnyGc::Leaky(g) => g.try_borrow().ok().map(|b| b.id),
        AnyGc::CopySwh(g) => Some(g.header.id),
        AnyGc::SwhPod(g) => Some(g.header.id),
        AnyGc::CellP(g) => Some({ let b = g.get(); b.id }),
        AnyGc::Field(g) => Some(g.id),
        AnyGc::Raw(g) => Some(g.id),
        AnyGc::Cell(g) => Some(g.get().0),
        AnyGc::Once(g) => g.get().map(|b| b.0),
        AnyGc::Leaf(g) => Some(g.borrow().id),
        AnyGc::LeafLock(g) => Some(g.get() as Id),
        AnyGc::LeafStatic(g) => Some(g.id),
        AnyGc::SetHolder(g) => Some(g.id),
        AnyGc::Swh(g) => Some(g.header.id),
        _ => None,
    }
}

fn lock_none<'gc>() -> Lock<Edge<'gc>> {
    Lock::new(None)
}

/// Allocate one object of `kind`. Payload construction runs with tracking paused, the arena call
/// with tracking on. Returns the pointer (and, for SetHolder, the address-less set it created).
pub fn alloc<'gc>(mc: &Mutation<'gc>, kind: Kind, id: Id) -> AnyGc<'gc> {
    let _p = seam::pause();
    match kind {
        Kind::Node => {
            let v = RefLock::new(NodeBody { id, tok: Tok(id), strong: vec![None; NODE_STRONG], fp: FaultPoint(id), weak: vec![None; NODE_WEAK] });
            let _t = seam::track();
            // some nodes are allocated with per-type metadata (a vtable of their own per
            // (type, metadata) pair) and then handed on as ordinary pointers through erase_kind
            AnyGc::Node(match node_tag_of(id) {
                1 => Gc::erase_kind(gc_arena::GcBuilder::<_, NodeTag>::new_with_type_meta::<TagA>().write(mc, v)),
                2 => Gc::erase_kind(gc_arena::GcBuilder::<_, NodeTag>::new_with_type_meta::<TagB>().write(mc, v)),
                _ => Gc::new(mc, v),
            })
        }
        Kind::Field => {
            let mut hm: HashMap<u8, Lock<Edge<'gc>>, FixedHasher> = HashMap::default();
            hm.insert(0, lock_none());
            let v = FieldNode {
                id,
                tok: Tok(id),
                a: lock_none(),
                b: RefLock::new(None),
                bx: Box::new(lock_none()),
                arr: [lock_none(), lock_none()],
                vec: vec![lock_none(), lock_none()],
                vd: {
                    // wrapped: the slot in use lies in the second of as_slices()
                    let mut d: VecDeque<Lock<Edge<'gc>>> = VecDeque::with_capacity(4);
                    let cap = d.capacity();
                    for _ in 0..cap {
                        d.push_back(lock_none());
                    }
                    for _ in 0..cap - 2 {
                        d.pop_front();
                    }
                    for _ in 0..2 {
                        d.push_back(lock_none());
                    }
                    d
                },
                bm: BTreeMap::from([(0u8, lock_none())]),
                hm,
                opt: Some(lock_none()),
                res: if id % 2 == 0 { Ok(lock_none()) } else { Err(lock_none()) },
                inner: Inner { pad: id, slot: lock_none() },
                once: OnceLock::new(),
                fp: FaultPoint(id),
                w: Lock::new(None),
                wv: RefLock::new(vec![None]),
            };
            let _t = seam::track();
            AnyGc::Field(Gc::new(mc, v))
        }
        Kind::Raw => {
            let v = RawNode { id, tok: Tok(id), s: [Cell::new(None), Cell::new(None)], fp: FaultPoint(id), w: [Cell::new(None), Cell::new(None)] };
            let _t = seam::track();
            AnyGc::Raw(Gc::new(mc, v))
        }
        Kind::Cell => {
            let _t = seam::track();
            AnyGc::Cell(Gc::new(mc, Lock::new((id, None, None))))
        }
        Kind::Once => {
            let _t = seam::track();
            AnyGc::Once(Gc::new(mc, OnceLock::new()))
        }
        Kind::Leaf => {
            let v = RefLock::new(LeafBody { id, tok: Tok(id), val: Cell::new(0) });
            let _t = seam::track();
            AnyGc::Leaf(Gc::new(mc, v))
        }
        Kind::Leaky => {
            let v = RefLock::new(LeakyBody { id, tok: Tok(id), e: None });
            let _t = seam::track();
            AnyGc::Leaky(Gc::new(mc, v))
        }
        Kind::LeafLock => {
            let _t = seam::track();
            AnyGc::LeafLock(Gc::new(mc, Lock::new(id as u64)))
        }
        Kind::LeafStatic => {
            let v = LeafBody { id, tok: Tok(id), val: Cell::new(0) };
            let _t = seam::track();
            AnyGc::LeafStatic(Gc::new_static(mc, v))
        }
        Kind::SetHolder => {
            let set = {
                let _t = seam::track();
                DynamicRootSet::new(mc)
            };
            let v = SetHolder { id, tok: Tok(id), set };
            let _t = seam::track();
            AnyGc::SetHolder(Gc::new(mc, v))
        }
        Kind::Slice { len } => {
            let _t = seam::track();
            AnyGc::Slice(GcSliceBuilder::<SliceElem<'gc>>::new(len as usize).write_slice_with(mc, |_| Lock::new(None)))
        }
        Kind::Swh { len } => {
            let h = SwhHead { id, tok: Tok(id), fp: FaultPoint(id), slot: Lock::new(None) };
            let _t = seam::track();
            AnyGc::Swh(GcSliceWithHeaderBuilder::<SwhHead<'gc>, SliceElem<'gc>>::new(len as usize).write_header(h).write_slice_with(mc, |_| Lock::new(None)))
        }
        Kind::ZLeaf => {
            let v = crate::tok::ZTok::new();
            let _t = seam::track();
            AnyGc::ZLeaf(if id % 2 == 0 { Gc::new(mc, v) } else { Gc::new_static(mc, v) })
        }
        Kind::SwhPod { len } => {
            let h = SwhHead { id, tok: Tok(id), fp: FaultPoint(id), slot: Lock::new(None) };
            let _t = seam::track();
            AnyGc::SwhPod(GcSliceWithHeaderBuilder::<SwhHead<'gc>, u8>::new(len as usize).write_header(h).write_slice_with(mc, |i| i as u8))
        }
        Kind::CellP => {
            let _t = seam::track();
            AnyGc::CellP(Gc::new(mc, Lock::new(PackedBody { tag: 0x5A, id, e: None, w: None })))
        }
        Kind::Bag => {
            let mut hm: HashMap<u8, Edge<'gc>, FixedHasher> = HashMap::default();
            hm.insert(0, None);
            let v = RefLock::new(BagBody {
                id,
                tok: Tok(id),
                t1: (None,),
                t2: (1, None),
                t3: (None, 2, None),
                t4: (3, (4, None), 5),
                arr: [None, None],
                bx: Box::new(None),
                rc: std::rc::Rc::new(None),
                ll: std::collections::LinkedList::from([None]),
                vd: wrapped_deque(None),
                bh: std::collections::BinaryHeap::from([Keyed { k: 0, e: None }]),
                bm: BTreeMap::from([(0u8, None)]),
                bk: BTreeMap::from([(Keyed { k: 0, e: None }, 0u8)]),
                bs: std::collections::BTreeSet::from([Keyed { k: 0, e: None }]),
                hm,
                opt: Some(Some(None)),
                res: Err(None),
                en: Slotty::Ptr(None),
                ln: Linky::Back { prev: None, tag: 7 },
                fp: FaultPoint(id),
                wt: (6, None),
                wo: Some(Box::new(None)),
            });
            let _t = seam::track();
            AnyGc::Bag(Gc::new(mc, v))
        }
        Kind::SetInner | Kind::Lay { .. } | Kind::Built { .. } | Kind::ZstShared | Kind::CopySlice { .. } | Kind::CopySwh { .. } => unreachable!("not allocated through access::alloc"),
    }
}

pub fn read_strong<'gc>(any: AnyGc<'gc>, k: usize) -> Edge<'gc> {
    match canon(any) {
        AnyGc::Slice(g) => g[k].get(),
        AnyGc::Swh(g) => {
            if k == 0 {
                g.header.slot.get()
            } else {
                g.slice[k - 1].get()
            }
        }
        AnyGc::Opaque(_) | AnyGc::ZLeaf(_) => None,
        AnyGc::SwhPod(g) => g.header.slot.get(),
        AnyGc::CellP(g) => {
            let b = g.get();
            b.e
        }
        AnyGc::CopySlice(g) => g[k],
        AnyGc::CopySwh(g) => {
            if k == 0 {
                g.header.e
            } else {
                g.slice[k - 1]
            }
        }
        AnyGc::ThinSlice(_) | AnyGc::ThinSwh(_) | AnyGc::NodeE(_) | AnyGc::NodeD(_) | AnyGc::NodeM(_) => unreachable!(),
        AnyGc::Node(g) => g.borrow().strong[k],
        AnyGc::Bag(g) => {
            let b = g.borrow();
            match k {
                0 => b.t1.0,
                1 => b.t2.1,
                2 => b.t3.0,
                3 => b.t4.1.1,
                4 | 5 => b.arr[k - 4],
                6 => *b.bx,
                7 => *b.rc,
                8 => *b.ll.front().unwrap(),
                9 => b.vd[DEQUE_SLOT],
                10 => b.bh.peek().unwrap().e,
                11 => b.bm[&0],
                12 => b.bk.keys().next().unwrap().e,
                13 => b.bs.iter().next().unwrap().e,
                14 => b.hm[&0],
                15 => b.opt.unwrap().unwrap(),
                16 => *b.res.as_ref().unwrap_err(),
                17 => match &b.en {
                    Slotty::Ptr(e) => *e,
                    Slotty::Label(_) => None,
                },
                18 => match &b.ln {
                    Linky::Back { prev, .. } => *prev,
                    Linky::Named { next, .. } => *next,
                },
                _ => unreachable!(),
            }
        }
        AnyGc::Field(g) => match k {
            0 => g.a.get(),
            1 => *g.b.borrow(),
            2 => g.bx.get(),
            3 | 4 => g.arr[k - 3].get(),
            5 => g.vec[0].get(),
            6 => g.vec[1].get(),
            7 => g.vd[DEQUE_SLOT].get(),
            8 => g.bm[&0].get(),
            9 => g.hm[&0].get(),
            10 => g.opt.as_ref().unwrap().get(),
            11 => match &g.res {
                Ok(l) | Err(l) => l.get(),
            },
            12 => g.inner.slot.get(),
            13 => g.once.get().copied(),
            _ => unreachable!(),
        },
        AnyGc::Raw(g) => g.s[k].get(),
        AnyGc::Cell(g) => g.get().1,
        AnyGc::Once(g) => g.get().map(|b| b.1),
        AnyGc::Leaf(_) | AnyGc::LeafLock(_) | AnyGc::LeafStatic(_) => None,
        AnyGc::SetHolder(_) => None,
        // a leaked guard hides the edge from the client (callers consult the shadow's `leaked`)
        AnyGc::Leaky(g) => g.try_borrow().ok().and_then(|b| b.e),
    }
}

pub fn read_weak<'gc>(any: AnyGc<'gc>, k: usize) -> WEdge<'gc> {
    match canon(any) {
        AnyGc::Node(g) => g.borrow().weak[k],
        AnyGc::Bag(g) => {
            let b = g.borrow();
            match k {
                0 => b.t3.2,
                1 => b.wt.1,
                _ => **b.wo.as_ref().unwrap(),
            }
        }
        AnyGc::Field(g) => match k {
            0 => g.w.get(),
            _ => g.wv.borrow()[0],
        },
        AnyGc::Raw(g) => g.w[k].get(),
        AnyGc::Cell(g) => g.get().2,
        AnyGc::CellP(g) => {
            let b = g.get();
            b.w
        }
        _ => None,
    }
}

#[derive(Debug, PartialEq, Eq)]
pub enum Wrote {
    Done,
    /// a set-once slot that was already set: the API refused and nothing changed
    Refused,
}

/// An immutable edge-carrying object made through the copy path.
pub fn alloc_copy<'gc>(mc: &Mutation<'gc>, id: Id, edges: &[Edge<'gc>], header: bool) -> AnyGc<'gc> {
    if header {
        let h = {
            let _p = seam::pause();
            CopyHead { id, tok: Tok(id), e: edges.first().copied().flatten() }
        };
        let _t = seam::track();
        AnyGc::CopySwh(GcSliceWithHeaderBuilder::<CopyHead<'gc>, Edge<'gc>>::new(edges.len().saturating_sub(1)).write_header(h).copy_slice(mc, if edges.is_empty() { edges } else { &edges[1..] }))
    } else {
        let _t = seam::track();
        AnyGc::CopySlice(Gc::new_slice(mc, edges))
    }
}

/// Store `v` into strong slot `k` of `any` through a sanctioned route.
pub fn write_strong<'gc>(mc: &Mutation<'gc>, any: AnyGc<'gc>, self_id: Id, k: usize, route: Route, v: Edge<'gc>) -> Wrote {
    match canon(any) {
        AnyGc::Slice(g) => {
            match route {
                Route::ViaThin => Gc::write(mc, Gc::as_thin(g))[k].unlock().set(v),
                Route::ViaRange => Gc::write(mc, g)[k..][0usize].unlock().set(v),
                _ => Gc::write(mc, g)[k].unlock().set(v),
            }
            Wrote::Done
        }
        AnyGc::Swh(g) => {
            match route {
                Route::ViaThin => {
                    let w = Gc::write(mc, Gc::as_thin(g));
                    if k == 0 {
                        field!(field!(w, SliceWithHeader, header), SwhHead, slot).unlock().set(v)
                    } else {
                        field!(w, SliceWithHeader, slice)[k - 1].unlock().set(v)
                    }
                }
                _ => {
                    let w = Gc::write(mc, g);
                    if k == 0 {
                        field!(field!(w, SliceWithHeader, header), SwhHead, slot).unlock().set(v)
                    } else {
                        field!(w, SliceWithHeader, slice)[k - 1].unlock().set(v)
                    }
                }
            }
            Wrote::Done
        }
        AnyGc::Opaque(_) | AnyGc::CopySlice(_) | AnyGc::CopySwh(_) | AnyGc::ZLeaf(_) => Wrote::Refused,
        AnyGc::SwhPod(g) => {
            field!(field!(Gc::write(mc, g), SliceWithHeader, header), SwhHead, slot).unlock().set(v);
            Wrote::Done
        }
        AnyGc::CellP(g) => {
            let mut cur = g.get();
            cur.e = v;
            match route {
                Route::WriteUnlock => g.unlock(mc).set(cur),
                _ => g.set(mc, cur),
            }
            Wrote::Done
        }
        AnyGc::ThinSlice(_) | AnyGc::ThinSwh(_) | AnyGc::NodeE(_) | AnyGc::NodeD(_) | AnyGc::NodeM(_) => unreachable!(),
        AnyGc::Node(g) => {
            match route {
                Route::WriteUnlock => Gc::write(mc, g).unlock().borrow_mut().strong[k] = v,
                Route::TryBorrowMut => g.try_borrow_mut(mc).unwrap().strong[k] = v,
                _ => g.borrow_mut(mc).strong[k] = v,
            }
            Wrote::Done
        }
        AnyGc::Bag(g) => {
            let mut b = match route {
                Route::WriteUnlock => Gc::write(mc, g).unlock().borrow_mut(),
                Route::TryBorrowMut => g.try_borrow_mut(mc).unwrap(),
                _ => g.borrow_mut(mc),
            };
            // container surgery allocates: not the crate's business
            let _p = seam::pause();
            match k {
                0 => b.t1.0 = v,
                1 => b.t2.1 = v,
                2 => b.t3.0 = v,
                3 => b.t4.1.1 = v,
                4 | 5 => b.arr[k - 4] = v,
                6 => *b.bx = v,
                7 => b.rc = std::rc::Rc::new(v),
                8 => *b.ll.front_mut().unwrap() = v,
                9 => b.vd[DEQUE_SLOT] = v,
                10 => {
                    b.bh.clear();
                    b.bh.push(Keyed { k: 0, e: v });
                }
                11 => {
                    b.bm.insert(0, v);
                }
                12 => {
                    b.bk.clear();
                    b.bk.insert(Keyed { k: 0, e: v }, 0);
                }
                13 => {
                    b.bs.clear();
                    b.bs.insert(Keyed { k: 0, e: v });
                }
                14 => {
                    b.hm.insert(0, v);
                }
                15 => b.opt = Some(Some(v)),
                16 => b.res = Err(v),
                17 => b.en = Slotty::Ptr(v),
                18 => b.ln = Linky::Back { prev: v, tag: 7 },
                _ => unreachable!(),
            }
            drop(b);
            Wrote::Done
        }
        AnyGc::Field(g) => {
            let w = Gc::write(mc, g);
            match k {
                0 => field!(w, FieldNode, a).unlock().set(v),
                1 => *unlock!(w, FieldNode, b).borrow_mut() = v,
                2 => field!(w, FieldNode, bx).as_deref().unlock().set(v),
                3 | 4 => field!(w, FieldNode, arr)[k - 3].unlock().set(v),
                5 => field!(w, FieldNode, vec)[0usize].unlock().set(v),
                6 => field!(w, FieldNode, vec).as_deref()[1usize].unlock().set(v),
                7 => field!(w, FieldNode, vd)[DEQUE_SLOT].unlock().set(v),
                8 => field!(w, FieldNode, bm)[&0u8].unlock().set(v),
                9 => field!(w, FieldNode, hm)[&0u8].unlock().set(v),
                10 => field!(w, FieldNode, opt).as_write().unwrap().unlock().set(v),
                11 => match field!(w, FieldNode, res).as_write() {
                    Ok(l) | Err(l) => l.unlock().set(v),
                },
                12 => field!(field!(w, FieldNode, inner), Inner, slot).unlock().set(v),
                13 => {
                    let Some(c) = v else { return Wrote::Refused };
                    if field!(w, FieldNode, once).unlock().set(c).is_err() {
                        return Wrote::Refused;
                    }
                }
                _ => unreachable!(),
            }
            Wrote::Done
        }
        AnyGc::Raw(g) => {
            let p = Gc::erase(g);
            match (route, v) {
                (Route::NoBarrier, None) => {}
                (Route::BackwardSome, Some(c)) => mc.backward_barrier(p, Some(c.erase())),
                (Route::ForwardSome, Some(c)) => mc.forward_barrier(Some(p), c.erase()),
                (Route::ForwardNone, Some(c)) => mc.forward_barrier(None, c.erase()),
                _ => mc.backward_barrier(p, None),
            }
            g.s[k].set(v);
            Wrote::Done
        }
        AnyGc::Cell(g) => {
            let cur = g.get();
            match route {
                Route::WriteUnlock => g.unlock(mc).set((cur.0, v, cur.2)),
                _ => g.set(mc, (cur.0, v, cur.2)),
            }
            Wrote::Done
        }
        AnyGc::Once(g) => {
            let Some(c) = v else { return Wrote::Refused };
            let already = g.get().is_some();
            match route {
                Route::GetOrInit => {
                    let body = (self_id, c);
                    g.get_or_init(mc, || body);
                    if already { Wrote::Refused } else { Wrote::Done }
                }
                _ => {
                    if g.set(mc, (self_id, c)).is_ok() { Wrote::Done } else { Wrote::Refused }
                }
            }
        }
        AnyGc::Leaf(_) | AnyGc::LeafLock(_) | AnyGc::LeafStatic(_) | AnyGc::SetHolder(_) => Wrote::Refused,
        AnyGc::Leaky(g) => match (route, g.try_borrow_mut(mc)) {
            (_, Err(_)) => Wrote::Refused,
            (_, Ok(mut b)) => {
                b.e = v;
                Wrote::Done
            }
        },
    }
}

pub fn write_weak<'gc>(mc: &Mutation<'gc>, any: AnyGc<'gc>, k: usize, route: Route, v: WEdge<'gc>) -> Wrote {
    match canon(any) {
        AnyGc::Node(g) => {
            match route {
                Route::WriteUnlock => Gc::write(mc, g).unlock().borrow_mut().weak[k] = v,
                Route::TryBorrowMut => g.try_borrow_mut(mc).unwrap().weak[k] = v,
                _ => g.borrow_mut(mc).weak[k] = v,
            }
            Wrote::Done
        }
        AnyGc::Bag(g) => {
            let mut b = match route {
                Route::WriteUnlock => Gc::write(mc, g).unlock().borrow_mut(),
                Route::TryBorrowMut => g.try_borrow_mut(mc).unwrap(),
                _ => g.borrow_mut(mc),
            };
            let _p = seam::pause();
            match k {
                0 => b.t3.2 = v,
                1 => b.wt.1 = v,
                _ => b.wo = Some(Box::new(v)),
            }
            drop(b);
            Wrote::Done
        }
        AnyGc::Field(g) => {
            let w = Gc::write(mc, g);
            match k {
                0 => field!(w, FieldNode, w).unlock().set(v),
                _ => unlock!(w, FieldNode, wv).borrow_mut()[0] = v,
            }
            Wrote::Done
        }
        AnyGc::Raw(g) => {
            let p = Gc::erase(g);
            match (route, v) {
                (Route::NoBarrier, None) => {}
                (Route::BackwardSome, Some(c)) => mc.backward_barrier_weak(p, c.erase()),
                (Route::ForwardSome, Some(c)) => mc.forward_barrier_weak(Some(p), c.erase()),
                (Route::ForwardNone, Some(c)) => mc.forward_barrier_weak(None, c.erase()),
                _ => mc.backward_barrier(p, None),
            }
            g.w[k].set(v);
            Wrote::Done
        }
        AnyGc::Cell(g) => {
            let cur = g.get();
            match route {
                Route::WriteUnlock => g.unlock(mc).set((cur.0, cur.1, v)),
                _ => g.set(mc, (cur.0, cur.1, v)),
            }
            Wrote::Done
        }
        AnyGc::CellP(g) => {
            let mut cur = g.get();
            cur.w = v;
            match route {
                Route::WriteUnlock => g.unlock(mc).set(cur),
                _ => g.set(mc, cur),
            }
            Wrote::Done
        }
        _ => Wrote::Refused,
    }
}

/// Does this (kind, route, storing Some?) combination issue a forward barrier (which marks the
/// child at once and, on the pinned tree, is credited as marking work)?
pub fn is_forward_route(kind: Kind, route: Route) -> bool {
    kind == Kind::Raw && matches!(route, Route::ForwardSome | Route::ForwardNone)
}

/// A barrier-bearing no-op on a leaf (the value already there is written back).
pub fn touch<'gc>(mc: &Mutation<'gc>, any: AnyGc<'gc>) {
    match canon(any) {
        AnyGc::Leaf(g) => {
            let b = g.borrow_mut(mc);
            b.val.set(b.val.get());
        }
        AnyGc::LeafLock(g) => g.set(mc, g.get()),
        AnyGc::LeafStatic(g) => {
            let w = Gc::write(mc, g);
            w.val.set(w.val.get());
        }
        AnyGc::Node(g) => {
            let _ = g.borrow_mut(mc);
        }
        AnyGc::Bag(g) => {
            let _ = g.borrow_mut(mc);
        }
        AnyGc::Leaky(g) => {
            let _ = g.try_borrow_mut(mc);
        }
        AnyGc::Cell(g) => g.set(mc, g.get()),
        AnyGc::CellP(g) => g.set(mc, g.get()),
        other => {
            let _ = match other {
                AnyGc::Field(g) => {
                    Gc::write(mc, g);
                }
                AnyGc::Raw(g) => {
                    Gc::write(mc, g);
                }
                AnyGc::Once(g) => {
                    Gc::write(mc, g);
                }
                AnyGc::SetHolder(g) => {
                    Gc::write(mc, g);
                }
                AnyGc::Slice(g) => {
                    Gc::write(mc, g);
                }
                AnyGc::Swh(g) => {
                    Gc::write(mc, g);
                }
                AnyGc::Opaque(g) => {
                    Gc::write(mc, g);
                }
                _ => {}
            };
        }
    }
}

pub fn set_of<'gc>(any: AnyGc<'gc>) -> Option<DynamicRootSet<'gc>> {
    match canon(any) {
        AnyGc::SetHolder(g) => Some(g.set),
        _ => None,
    }
}
