//! One run = one trace executed in a fresh world. Generation and replay share the executor.

use std::collections::{BTreeMap, BTreeSet};

use crate::genr::{Gen, GenCfg};
use crate::ops::*;
use crate::seam;
use crate::tok;
use crate::world::*;

#[derive(Clone, Debug, serde::Serialize, serde::Deserialize)]
pub struct RunOutcome {
    pub trace: Trace,
    pub viol: Option<Violation>,
    pub stats: Stats,
    pub sig: u64,
    pub digest: u64,
    pub known: BTreeSet<(String, String)>,
    #[serde(skip)]
    pub log: Vec<String>,
    pub states: Vec<u64>,
    pub transitions: Vec<u64>,
    pub c09_max_ratio: f64,
}

fn finish(mut w: World, trace: Trace) -> RunOutcome {
    let _p = seam::pause();
    tok::disarm_all();
    let failed = w.viol.is_some();
    // tear the world down. After a violation the heap may be inconsistent: leak it.
    let arenas = std::mem::take(&mut w.arenas);
    let handles = std::mem::take(&mut w.handles);
    if failed {
        std::mem::forget(arenas);
        std::mem::forget(handles);
    } else {
        let _c = seam::enter(seam::CTX_ARENA_DROP, seam::NO_ARENA);
        drop(arenas);
        drop(handles);
        let _ = seam::drain_events();
    }
    seam::end_run();
    w.stats.faults_fired = tok::faults_fired();
    w.stats.trace_ticks = tok::ticks();
    w.stats.addr_reuses = seam::recycled();
    RunOutcome {
        trace,
        viol: w.viol.take(),
        sig: w.sig,
        digest: w.digest,
        known: std::mem::take(&mut w.known),
        log: std::mem::take(&mut w.log),
        states: w.stats.states.iter().copied().collect(),
        transitions: w.stats.transitions.iter().copied().collect(),
        c09_max_ratio: w.c09_max_ratio,
        stats: std::mem::take(&mut w.stats),
    }
}

fn begin(quarantine: bool, recycle: bool, ecfg: &ExecCfg) -> World {
    seam::begin_run(quarantine, recycle);
    tok::begin_run();
    tok::set_quiet(true);
    World::new(ecfg.clone())
}

thread_local! {
    /// where the next runs stream their traces (crash capture), if anywhere
    pub static STREAM_TO: std::cell::RefCell<Option<std::path::PathBuf>> = const { std::cell::RefCell::new(None) };
}

fn open_stream(w: &mut World, quarantine: bool, recycle: bool) {
    let path = STREAM_TO.with(|s| s.borrow().clone());
    if let Some(p) = path {
        let _p = seam::pause();
        if let Ok(f) = std::fs::File::create(&p) {
            w.stream = Some(f);
            w.stream_line('X', format!("{{\"quarantine\": {quarantine}, \"recycle\": {recycle}}}"));
        }
    }
}

/// Rebuild a trace from a streamed file (whatever was written before the process died).
pub fn trace_from_stream(text: &str) -> Option<Trace> {
    let mut events: Vec<Event> = vec![];
    let mut suffix = Suffix::None;
    let mut quarantine = true;
    let mut recycle = false;
    for line in text.lines() {
        let (tag, rest) = line.split_at(line.len().min(2));
        match tag {
            "X " => {
                events.clear();
                suffix = Suffix::None;
                quarantine = !rest.contains("\"quarantine\": false");
                recycle = rest.contains("\"recycle\": true");
            }
            "E " => {
                if let Ok(e) = serde_json::from_str::<Event>(rest) {
                    events.push(e);
                }
            }
            "O " => {
                if let (Ok(op), Some(last)) = (serde_json::from_str::<Op>(rest), events.last_mut()) {
                    match last {
                        Event::Mutate { ops, .. } | Event::NewArena { ops, .. } | Event::Rootless { ops, .. } | Event::Collect { then: MarkedAction::Finalize(ops), .. } => ops.push(op),
                        _ => {}
                    }
                }
            }
            "S " => {
                if let Ok(s) = serde_json::from_str::<Suffix>(rest) {
                    suffix = s;
                }
            }
            _ => {}
        }
    }
    if events.is_empty() { None } else { Some(Trace { events, suffix, quarantine, recycle }) }
}

/// Generate and execute a run from one seed.
pub fn run_generated(seed: u64, gcfg: &GenCfg, ecfg: &ExecCfg, suffix: Suffix) -> RunOutcome {
    let mut w = begin(gcfg.quarantine, gcfg.recycle, ecfg);
    open_stream(&mut w, gcfg.quarantine, gcfg.recycle);
    let mut g = Gen::new(seed, gcfg.clone());
    let mut events: Vec<Event> = vec![];
    let mut ev = g.first_event(&w);
    w.exec_event(&mut ev, Some(&mut g));
    events.push(ev);
    while w.ok() && events.len() < gcfg.events {
        if gcfg.settle_after_adoption && w.stats.flags.contains("C06.adopt-into-marked") {
            break;
        }
        let mut ev = g.next_event(&w);
        w.exec_event(&mut ev, Some(&mut g));
        events.push(ev);
    }
    if w.ok() {
        w.run_suffix(suffix);
    }
    finish(w, Trace { events, suffix, quarantine: gcfg.quarantine, recycle: gcfg.recycle })
}

/// Execute a recorded trace: no PRNG anywhere.
pub fn run_replay(trace: &Trace, ecfg: &ExecCfg) -> RunOutcome {
    let mut w = begin(trace.quarantine, trace.recycle, ecfg);
    open_stream(&mut w, trace.quarantine, trace.recycle);
    let mut events = trace.events.clone();
    for ev in events.iter_mut() {
        if !w.ok() {
            break;
        }
        w.exec_event(ev, None);
    }
    if w.ok() {
        w.run_suffix(trace.suffix);
    }
    finish(w, Trace { events, suffix: trace.suffix, quarantine: trace.quarantine, recycle: trace.recycle })
}

/// Merge of per-run statistics over a batch.
#[derive(Default, Clone, Debug, serde::Serialize, serde::Deserialize)]
pub struct BatchStats {
    pub runs: u64,
    pub totals: BTreeMap<String, u64>,
    pub cells: BTreeMap<String, u64>,
    pub flags: BTreeMap<String, u64>,
    pub sigs_nontrivial: BTreeSet<u64>,
    pub sigs_all: BTreeSet<u64>,
    pub states: BTreeSet<u64>,
    pub transitions: BTreeSet<u64>,
    pub known: BTreeMap<String, u64>,
    pub foreign: BTreeMap<String, u64>,
    pub c09_max_ratio: f64,
    pub digest: u64,
}

impl BatchStats {
    pub fn add(&mut self, o: &RunOutcome, nontrivial: bool) {
        self.runs += 1;
        let s = &o.stats;
        for (k, v) in [
            ("events", s.events),
            ("ops", s.ops),
            ("ops_skipped", s.ops_skipped),
            ("callbacks", s.callbacks),
            ("collect_calls", s.collect_calls),
            ("allocs", s.allocs),
            ("destructors_seen", s.drops_seen),
            ("gc_blocks_released", s.frees_seen),
            ("trace_faults_fired", s.faults_fired),
            ("callback_panics", s.callback_panics),
            ("destructor_panics_fired", s.drop_faults),
            ("address_reuses_forced", s.addr_reuses),
            ("ctor_failures", s.ctor_failures),
            ("arena_drops", s.arena_drops),
            ("marked_arenas", s.marked_arenas),
            ("finalize_callbacks", s.finalize_cbs),
            ("upgrades", s.upgrades),
            ("upgrades_refused_live", s.upgrades_refused_live),
            ("resurrections", s.resurrections),
            ("isdead_queries", s.isdead_queries),
            ("isdead_exact", s.isdead_exact),
            ("probes", s.probes),
            ("foreign_probes", s.foreign_probes),
            ("stashes", s.stashes),
            ("handle_ops", s.handle_ops),
            ("known_c10_forward_barrier", s.known_c10_fw),
        ] {
            *self.totals.entry(k.to_string()).or_insert(0) += v;
        }
        for (k, v) in &s.cells {
            *self.cells.entry(k.clone()).or_insert(0) += v;
        }
        for f in &s.flags {
            *self.flags.entry(f.clone()).or_insert(0) += 1;
        }
        self.sigs_all.insert(o.sig);
        if nontrivial {
            self.sigs_nontrivial.insert(o.sig);
        }
        self.states.extend(o.states.iter().copied());
        self.transitions.extend(o.transitions.iter().copied());
        for (p, wht) in &o.known {
            *self.known.entry(format!("{p} {wht}")).or_insert(0) += 1;
        }
        if o.c09_max_ratio > self.c09_max_ratio {
            self.c09_max_ratio = o.c09_max_ratio;
        }
        self.digest ^= crate::rng::splitmix(o.digest);
    }

    pub fn merge(&mut self, o: &BatchStats) {
        self.runs += o.runs;
        for (k, v) in &o.totals {
            *self.totals.entry(k.clone()).or_insert(0) += v;
        }
        for (k, v) in &o.cells {
            *self.cells.entry(k.clone()).or_insert(0) += v;
        }
        for (k, v) in &o.flags {
            *self.flags.entry(k.clone()).or_insert(0) += v;
        }
        for (k, v) in &o.known {
            *self.known.entry(k.clone()).or_insert(0) += v;
        }
        for (k, v) in &o.foreign {
            *self.foreign.entry(k.clone()).or_insert(0) += v;
        }
        self.sigs_all.extend(o.sigs_all.iter().copied());
        self.sigs_nontrivial.extend(o.sigs_nontrivial.iter().copied());
        self.states.extend(o.states.iter().copied());
        self.transitions.extend(o.transitions.iter().copied());
        if o.c09_max_ratio > self.c09_max_ratio {
            self.c09_max_ratio = o.c09_max_ratio;
        }
        self.digest ^= o.digest;
    }
}
