//! Scale scenarios under a small stack (fault kind: stack exhaustion). The random runs work on
//! graphs of at most a few dozen objects; what only shows on a *long* object list or a *deep*
//! chain - a teardown, a marking or a sweep that recurses once per object - needs n in the hundreds
//! of thousands. Each scenario is a fixed client program, parameterised by (n, stack size) drawn
//! from VERIF_SEED, executed on a thread with that stack in a process of its own: an overflow kills
//! that process, which is the verdict. The oracle inside is the usual counting one: every value
//! destructed exactly once when it has to be, none while it is reachable.
//!
//!   sim scale-inner <variant> <n> <stack_kib>      (child) exit 0 held, 1 violated (message on stdout)
//!
//! Everything here runs real gc-arena code; nothing is stubbed but the payload type.

use std::process::{Command, Stdio};
use std::sync::atomic::{AtomicUsize, Ordering};
use std::time::Duration;

use gc_arena::{Arena, Collect, DynamicRoot, DynamicRootSet, Gc, GcWeak, Lock, Mutation, RefLock, Rootable};

static DROPS: AtomicUsize = AtomicUsize::new(0);

struct Cnt(#[allow(dead_code)] u32);
impl Drop for Cnt {
    fn drop(&mut self) {
        DROPS.fetch_add(1, Ordering::Relaxed);
    }
}
gc_arena::static_collect!(Cnt);

#[derive(Collect)]
#[collect(no_drop)]
struct Link<'gc> {
    c: Cnt,
    next: Lock<Option<Gc<'gc, Link<'gc>>>>,
}

type Root<'gc> = Lock<Option<Gc<'gc, Link<'gc>>>>;

fn chain<'gc>(mc: &Mutation<'gc>, n: usize) -> Option<Gc<'gc, Link<'gc>>> {
    let mut head = None;
    for i in 0..n {
        head = Some(Gc::new(mc, Link { c: Cnt(i as u32), next: Lock::new(head) }));
    }
    head
}

fn garbage<'gc>(mc: &Mutation<'gc>, n: usize) {
    for i in 0..n {
        let _ = Gc::new(mc, Cnt(i as u32));
    }
}

pub const VARIANTS: &[(&str, &[&str])] = &[
    // (variant, properties whose check runs it)
    ("teardown-after-new", &["C04"]),
    ("teardown-rootless", &["C04"]),
    ("teardown-try-new-err", &["C04", "C11"]),
    ("teardown-mid-cycle", &["C04"]),
    ("chain-survives", &["C01"]),
    ("chain-collected", &["C02"]),
    // (appended later: the plans of the variants above do not depend on these)
    ("fanout-survives", &["C01"]),
    ("fanout-collected", &["C02"]),
    ("barriers-many", &["C06"]),
    ("weak-many", &["C05"]),
    ("handles-many", &["C14"]),
    ("cycles-many", &["C09", "C10"]),
    ("carry-many", &["C10"]),
    ("fanout-stepped", &["C07"]),
    ("root-weaks-paced", &["C09"]),
    ("barriers-paced", &["C09"]),
];

/// A root that itself holds many weak pointers (the random runs' root has two weak slots).
#[derive(Collect)]
#[collect(no_drop)]
struct Watch<'gc> {
    watch: Vec<GcWeak<'gc, Cnt>>,
    keep: Vec<Gc<'gc, Cnt>>,
}

/// A wide root: n children of one object (the gray queue holds them all at once), n weak
/// pointers, and a DynamicRootSet.
#[derive(Collect)]
#[collect(no_drop)]
struct Wide<'gc> {
    kids: Gc<'gc, RefLock<Vec<Gc<'gc, RefLock<Par<'gc>>>>>>,
    weaks: Gc<'gc, RefLock<Vec<GcWeak<'gc, Cnt>>>>,
    set: DynamicRootSet<'gc>,
    /// held by the root itself (written through `mutate_root`)
    extra: Option<Gc<'gc, RefLock<Par<'gc>>>>,
}

/// A parent that may adopt one child.
#[derive(Collect)]
#[collect(no_drop)]
struct Par<'gc> {
    c: Cnt,
    kid: Option<Gc<'gc, Cnt>>,
}

fn wide<'gc>(mc: &Mutation<'gc>) -> Wide<'gc> {
    Wide { kids: Gc::new(mc, RefLock::new(Vec::new())), weaks: Gc::new(mc, RefLock::new(Vec::new())), set: DynamicRootSet::new(mc), extra: None }
}

/// The scenario itself. Err(message) = the property is violated.
fn scenario(variant: &str, n: usize) -> Result<(), String> {
    DROPS.store(0, Ordering::Relaxed);
    let drops = || DROPS.load(Ordering::Relaxed);
    match variant {
        "teardown-after-new" => {
            let arena = Arena::<Rootable![Root<'_>]>::new(|mc| {
                garbage(mc, n / 2);
                Lock::new(chain(mc, n - n / 2))
            });
            let m = arena.metrics().clone();
            if drops() != 0 {
                return Err(format!("{} values destructed before any collection or drop", drops()));
            }
            drop(arena);
            if drops() != n || m.total_gc_count() != 0 {
                return Err(format!("arena with {n} allocations that never collected was dropped: {} destructors ran, total_gc_count reads {}", drops(), m.total_gc_count()));
            }
        }
        "teardown-rootless" => {
            gc_arena::arena::rootless_mutate(|mc| {
                garbage(mc, n / 2);
                let _ = chain(mc, n - n / 2);
            });
            if drops() != n {
                return Err(format!("rootless_mutate allocated {n} values; {} destructors ran when it returned", drops()));
            }
        }
        "teardown-try-new-err" => {
            let r = Arena::<Rootable![Root<'_>]>::try_new(|mc| {
                garbage(mc, n / 2);
                let _ = chain(mc, n - n / 2);
                Err::<Root<'_>, u8>(7)
            });
            if r.is_ok() {
                return Err("try_new returned Ok although its closure failed".into());
            }
            if drops() != n {
                return Err(format!("a failed try_new had allocated {n} values; {} destructors ran", drops()));
            }
        }
        "teardown-mid-cycle" => {
            let mut arena = Arena::<Rootable![Root<'_>]>::new(|mc| Lock::new(chain(mc, n)));
            let m = arena.metrics().clone();
            // part of the marking, then garbage on top, then the drop
            m.adjust_debt(n as f64 / 8.0);
            arena.mark_debt();
            arena.mutate(|mc, _| garbage(mc, 1000));
            if drops() != 0 {
                return Err(format!("{} values destructed during marking", drops()));
            }
            drop(arena);
            if drops() != n + 1000 || m.total_gc_count() != 0 {
                return Err(format!("arena dropped in the middle of marking {n} + 1000 allocations: {} destructors ran, total_gc_count reads {}", drops(), m.total_gc_count()));
            }
        }
        "chain-survives" | "chain-collected" => {
            let mut arena = Arena::<Rootable![Root<'_>]>::new(|mc| Lock::new(chain(mc, n)));
            arena.finish_cycle();
            arena.finish_cycle();
            if drops() != 0 {
                return Err(format!("a chain of {n} objects hangs off the root; two full cycles destructed {} of them", drops()));
            }
            let len = arena.mutate(|_, root| {
                let mut k = 0usize;
                let mut cur = root.get();
                while let Some(l) = cur {
                    k += 1;
                    cur = l.next.get();
                }
                k
            });
            if len != n {
                return Err(format!("the chain of {n} objects reads {len} long after two cycles"));
            }
            if variant == "chain-collected" {
                arena.mutate_root(|_, root| *root = Lock::new(None));
                arena.finish_cycle();
                arena.finish_cycle();
                if drops() != n || arena.metrics().total_gc_count() != 0 {
                    return Err(format!("a chain of {n} objects was cut from the root; after two full cycles {} were destructed, total_gc_count reads {}", drops(), arena.metrics().total_gc_count()));
                }
            }
            drop(arena);
            if drops() != n {
                return Err(format!("{} of {n} destructors ran by the time the arena was gone", drops()));
            }
        }
        "fanout-survives" | "fanout-collected" => {
            let mut arena = Arena::<Rootable![Wide<'_>]>::new(|mc| {
                let w = wide(mc);
                let mut v = w.kids.borrow_mut(mc);
                for i in 0..n {
                    v.push(Gc::new(mc, RefLock::new(Par { c: Cnt(i as u32), kid: None })));
                }
                drop(v);
                w
            });
            arena.finish_cycle();
            arena.finish_cycle();
            if drops() != 0 {
                return Err(format!("{n} objects hang off one reachable vector; two full cycles destructed {} of them", drops()));
            }
            // a paced cycle too, in steps, with garbage made in between
            let m = arena.metrics().clone();
            for _ in 0..64 {
                arena.mutate(|mc, _| garbage(mc, 256));
                m.adjust_debt(n as f64 / 16.0);
                arena.collect_debt();
            }
            arena.finish_cycle();
            arena.finish_cycle();
            if drops() != 64 * 256 {
                return Err(format!("{n} reachable objects and {} garbage ones went through a stepped cycle: {} destructors ran", 64 * 256, drops()));
            }
            if variant == "fanout-collected" {
                arena.mutate(|mc, root| root.kids.borrow_mut(mc).clear());
                arena.finish_cycle();
                arena.finish_cycle();
                // what is left: the two vectors' objects and the set's inner object
                if drops() != n + 64 * 256 {
                    return Err(format!("a vector of {n} objects was cleared; after two full cycles {} of them were destructed", drops() - 64 * 256));
                }
            }
            drop(arena);
            if drops() != n + 64 * 256 || m.total_gc_count() != 0 {
                return Err(format!("{} of {} destructors ran by the time the arena was gone, count {}", drops(), n + 64 * 256, m.total_gc_count()));
            }
        }
        "barriers-many" => {
            // every one of n black parents adopts a fresh child while the arena is fully marked:
            // n backward barriers, n entries in the re-trace queue at once
            let mut arena = Arena::<Rootable![Wide<'_>]>::new(|mc| {
                let w = wide(mc);
                let mut v = w.kids.borrow_mut(mc);
                for i in 0..n {
                    v.push(Gc::new(mc, RefLock::new(Par { c: Cnt(i as u32), kid: None })));
                }
                drop(v);
                w
            });
            arena.finish_marking();
            // in the same marking phase the root itself adopts a fresh object (root re-trace)
            arena.mutate_root(|mc, root| {
                for (i, p) in root.kids.borrow().iter().enumerate() {
                    p.borrow_mut(mc).kid = Some(Gc::new(mc, Cnt(i as u32)));
                }
                root.extra = Some(Gc::new(mc, RefLock::new(Par { c: Cnt(7), kid: Some(Gc::new(mc, Cnt(8))) })));
            });
            let _ = std::panic::catch_unwind(std::panic::AssertUnwindSafe(|| arena.finish_cycle()));
            if drops() != 0 {
                return Err(format!("{n} fully marked parents each adopted a fresh child through borrow_mut and the root adopted a fresh object, all in one marking phase; {} values were destructed by the cycle that followed", drops()));
            }
            arena.finish_cycle();
            if drops() != 0 {
                return Err(format!("{n} fully marked parents each adopted a fresh child through borrow_mut; {} values were destructed by the cycles that followed", drops()));
            }
            let bad = arena.mutate(|_, root| root.kids.borrow().iter().filter(|p| p.borrow().kid.is_none()).count() + root.extra.map_or(1, |e| e.borrow().kid.is_none() as usize));
            if bad != 0 {
                return Err(format!("{bad} of {} adopted children read back as missing", n + 1));
            }
            drop(arena);
            if drops() != 2 * n + 2 {
                return Err(format!("{} of {} destructors ran by the time the arena was gone", drops(), 2 * n + 2));
            }
        }
        "weak-many" => {
            let mut arena = Arena::<Rootable![Wide<'_>]>::new(|mc| {
                let w = wide(mc);
                let mut v = w.weaks.borrow_mut(mc);
                for i in 0..n {
                    v.push(Gc::downgrade(Gc::new(mc, Cnt(i as u32))));
                }
                drop(v);
                w
            });
            let m = arena.metrics().clone();
            let live = arena.mutate(|mc, root| root.weaks.borrow().iter().filter(|w| w.upgrade(mc).is_some()).count());
            if live != n {
                return Err(format!("{} of {n} weak pointers to values nobody has collected yet refuse to upgrade", n - live));
            }
            arena.finish_cycle();
            if drops() != n {
                return Err(format!("{n} values are only weakly referenced; a full cycle destructed {}", drops()));
            }
            let (dropped, up) = arena.mutate(|mc, root| {
                let v = root.weaks.borrow();
                (v.iter().filter(|w| w.is_dropped()).count(), v.iter().filter(|w| w.upgrade(mc).is_some()).count())
            });
            if dropped != n || up != 0 {
                return Err(format!("after that cycle {dropped} of {n} weak pointers report dropped and {up} still upgrade"));
            }
            // the shells are still allocated (the weak pointers are reachable): count = n + 3
            if m.total_gc_count() != n + 3 {
                return Err(format!("{n} shells are held by reachable weak pointers; total_gc_count reads {} (expected {})", m.total_gc_count(), n + 3));
            }
            arena.mutate(|mc, root| root.weaks.borrow_mut(mc).clear());
            arena.finish_cycle();
            arena.finish_cycle();
            if m.total_gc_count() != 3 || drops() != n {
                return Err(format!("the weak pointers are gone and two cycles ran: total_gc_count reads {} (expected 3), {} destructor runs (expected {n})", m.total_gc_count(), drops()));
            }
        }
        "root-weaks-paced" => {
            // The statement's liveness bound, under one of four pacings, on a root that is made gray again
            // (mutate_root) before every debt-driven call while it holds K weak pointers to values
            // nothing else reaches: re-visiting those pointers is no marking work, so a cycle that
            // woke with H allocations is finished before rho*H/(1-rho) more were made. Time is
            // quadratic in K (the root is traced once per step), hence the cap on K.
            use gc_arena::arena::CollectionPhase;
            let k = 512 + n % 3584;
            let burst = 1 + (n / 4096) % 3;
            let d = gc_arena::metrics::Pacing::DEFAULT;
            // one of four pacings (dyadic factors; every path sums to rho < 1)
            let p = match (n / 12288) % 4 {
                0 => d,
                1 => gc_arena::metrics::Pacing { sleep_factor: 0.5, min_sleep: 64, mark_factor: 0.25, trace_factor: 0.25, keep_factor: 0.25, drop_factor: 0.25, free_factor: 0.25 },
                2 => gc_arena::metrics::Pacing { sleep_factor: 1.0, min_sleep: 0, mark_factor: 0.125, trace_factor: 0.5, keep_factor: 0.125, drop_factor: 0.5, free_factor: 0.25 },
                _ => gc_arena::metrics::Pacing { sleep_factor: 0.25, min_sleep: d.min_sleep, mark_factor: 0.5, trace_factor: 0.0, keep_factor: 0.0, drop_factor: 0.125, free_factor: 0.125 },
            };
            let rho = (p.mark_factor + p.trace_factor + p.keep_factor).max(p.drop_factor + p.free_factor).max(p.mark_factor + p.drop_factor + p.keep_factor);
            let mut arena = Arena::<Rootable![Watch<'_>]>::new(|mc| Watch { watch: Vec::new(), keep: (0..k).map(|i| Gc::new(mc, Cnt(i as u32))).collect() });
            let m = arena.metrics().clone();
            m.set_pacing(p);
            arena.finish_cycle();
            if m.total_gc_count() != k || drops() != 0 {
                return Err(format!("{k} values held by the root: after a full cycle total_gc_count reads {} and {} were destructed", m.total_gc_count(), drops()));
            }
            // the root lets go of its values and only watches them: written in place, or replaced
            if (n / 3) % 2 == 0 {
                arena.mutate_root(|_, root| {
                    root.watch = root.keep.iter().map(|&g| Gc::downgrade(g)).collect();
                    root.keep.clear();
                });
            } else {
                arena = arena.map_root::<Rootable![Watch<'_>]>(|_, old| Watch { watch: old.keep.iter().map(|&g| Gc::downgrade(g)).collect(), keep: Vec::new() });
            }
            for cycle in 0..4 {
                if arena.collection_phase() != CollectionPhase::Sleeping {
                    return Err(format!("cycle {cycle}: the collector is not asleep after a finished cycle"));
                }
                // until a debt-driven call wakes it
                let mut steps = 0usize;
                let h = loop {
                    arena.mutate_root(|mc, root| {
                        for i in 0..burst {
                            root.keep.push(Gc::new(mc, Cnt(i as u32)));
                        }
                    });
                    let c0 = m.total_gc_count();
                    arena.cycle_debt();
                    if arena.collection_phase() != CollectionPhase::Sleeping {
                        break c0;
                    }
                    steps += 1;
                    if steps > 64 * k + 4096 {
                        return Err(format!("cycle {cycle}: {steps} steps of {burst} allocations with default pacing and the collector never woke (count {})", m.total_gc_count()));
                    }
                };
                let bound = rho * h as f64 / (1.0 - rho);
                let mut made = 0usize;
                loop {
                    arena.mutate_root(|mc, root| {
                        for i in 0..burst {
                            root.keep.push(Gc::new(mc, Cnt(i as u32)));
                        }
                    });
                    made += burst;
                    arena.cycle_debt();
                    if arena.collection_phase() == CollectionPhase::Sleeping {
                        break;
                    }
                    if !((made as f64) < bound) {
                        return Err(format!("cycle {cycle}: woke with H = {h} (the root holds {k} weak pointers and is written before every call); {made} allocations later the cycle is still unfinished after cycle_debt, but rho*H/(1-rho) = {bound} (rho = {rho})"));
                    }
                }
                // every other cycle the root lets go of what it kept
                if cycle % 2 == 1 {
                    arena.mutate_root(|_, root| root.keep.clear());
                }
            }
        }
        "barriers-paced" => {
            // The same bound while the mutator keeps writing to objects the marking has already
            // finished with: 2w backward barriers (borrow_mut on both ends of a vector of K rooted
            // objects, round-robin) before every cycle_debt call. A re-queued object is traced
            // again, which is no new work: the cycle still ends before rho*H/(1-rho) allocations.
            use gc_arena::arena::CollectionPhase;
            let k = 512 + n % 3584;
            let burst = 1 + (n / 4096) % 3;
            let w = 1 + (n / 7) % 8;
            let d = gc_arena::metrics::Pacing::DEFAULT;
            let p = match (n / 12288) % 4 {
                0 => d,
                1 => gc_arena::metrics::Pacing { sleep_factor: 0.5, min_sleep: 64, mark_factor: 0.25, trace_factor: 0.25, keep_factor: 0.25, drop_factor: 0.25, free_factor: 0.25 },
                2 => gc_arena::metrics::Pacing { sleep_factor: 1.0, min_sleep: 0, mark_factor: 0.125, trace_factor: 0.5, keep_factor: 0.125, drop_factor: 0.5, free_factor: 0.25 },
                _ => gc_arena::metrics::Pacing { sleep_factor: 0.25, min_sleep: d.min_sleep, mark_factor: 0.5, trace_factor: 0.0, keep_factor: 0.0, drop_factor: 0.125, free_factor: 0.125 },
            };
            let rho = (p.mark_factor + p.trace_factor + p.keep_factor).max(p.drop_factor + p.free_factor).max(p.mark_factor + p.drop_factor + p.keep_factor);
            let mut arena = Arena::<Rootable![Wide<'_>]>::new(|mc| {
                let wd = wide(mc);
                let mut v = wd.kids.borrow_mut(mc);
                for i in 0..k {
                    v.push(Gc::new(mc, RefLock::new(Par { c: Cnt(i as u32), kid: Some(Gc::new(mc, Cnt(i as u32))) })));
                }
                drop(v);
                wd
            });
            let m = arena.metrics().clone();
            m.set_pacing(p);
            arena.finish_cycle();
            let live = 2 * k + 3;
            if m.total_gc_count() != live || drops() != 0 {
                return Err(format!("{live} reachable allocations: after a full cycle total_gc_count reads {} and {} values were destructed", m.total_gc_count(), drops()));
            }
            let mut pos = 0usize;
            for cycle in 0..4 {
                if arena.collection_phase() != CollectionPhase::Sleeping {
                    return Err(format!("cycle {cycle}: the collector is not asleep after a finished cycle"));
                }
                let mut steps = 0usize;
                let mut woke: Option<usize> = None;
                let mut made = 0usize;
                loop {
                    arena.mutate(|mc, root| {
                        garbage(mc, burst);
                        let v = root.kids.borrow();
                        for t in 0..w {
                            let j = (pos + t) % k;
                            drop(v[j].borrow_mut(mc));
                            drop(v[k - 1 - j].borrow_mut(mc));
                        }
                    });
                    pos += w;
                    let c0 = m.total_gc_count();
                    if woke.is_some() {
                        made += burst;
                    }
                    arena.cycle_debt();
                    let asleep = arena.collection_phase() == CollectionPhase::Sleeping;
                    match woke {
                        None if !asleep => woke = Some(c0),
                        None => {
                            steps += 1;
                            if steps > 64 * k + 4096 {
                                return Err(format!("cycle {cycle}: {steps} steps of {burst} allocations and the collector never woke (count {})", m.total_gc_count()));
                            }
                        }
                        Some(_) if asleep => break,
                        Some(h) => {
                            let bound = rho * h as f64 / (1.0 - rho);
                            if !((made as f64) < bound) {
                                return Err(format!("cycle {cycle}: woke with H = {h} ({} objects already marked are written before every call); {made} allocations later the cycle is still unfinished after cycle_debt, but rho*H/(1-rho) = {bound} (rho = {rho})", 2 * w));
                            }
                        }
                    }
                }
            }
            if drops() == 0 {
                return Err("four cycles ended and none of the garbage values was destructed".into());
            }
            arena.finish_cycle();
            arena.finish_cycle();
            if m.total_gc_count() != live {
                return Err(format!("{live} reachable allocations after the paced cycles and two full ones; total_gc_count reads {}", m.total_gc_count()));
            }
        }
        "handles-many" => {
            type R = Rootable![Cnt];
            let mut arena = Arena::<Rootable![Wide<'_>]>::new(wide);
            let mut hs: Vec<Option<DynamicRoot<R>>> = arena.mutate(|mc, root| (0..n).map(|i| Some(root.set.stash::<R>(mc, Gc::new(mc, Cnt(i as u32))))).collect());
            arena.finish_cycle();
            arena.finish_cycle();
            if drops() != 0 {
                return Err(format!("{n} values are stashed in a reachable DynamicRootSet; two full cycles destructed {}", drops()));
            }
            // every other handle goes, clones of a few of the rest come and go, the freed slots are used again
            for (i, h) in hs.iter_mut().enumerate() {
                if i % 2 == 1 {
                    *h = None;
                }
            }
            let clones: Vec<DynamicRoot<R>> = hs.iter().step_by(1000).filter_map(|h| h.clone()).collect();
            arena.finish_cycle();
            arena.finish_cycle();
            if drops() != n / 2 {
                return Err(format!("{} of {n} handles were dropped; two full cycles destructed {} values", n / 2, drops()));
            }
            drop(clones);
            let more: Vec<DynamicRoot<R>> = arena.mutate(|mc, root| (0..n / 2).map(|i| root.set.stash::<R>(mc, Gc::new(mc, Cnt((n + i) as u32)))).collect());
            arena.finish_cycle();
            arena.finish_cycle();
            let wrong = arena.mutate(|_, root| {
                let a = hs.iter().enumerate().filter(|(i, h)| h.as_ref().is_some_and(|h| !root.set.contains(h) || root.set.fetch(h).0 != *i as u32)).count();
                let b = more.iter().enumerate().filter(|(i, h)| !root.set.contains(h) || root.set.fetch(h).0 != (n + i) as u32).count();
                a + b
            });
            if wrong != 0 || drops() != n / 2 {
                return Err(format!("after slot reuse {wrong} handles fetch something else than what was stashed; {} destructor runs (expected {})", drops(), n / 2));
            }
            drop(hs);
            drop(more);
            arena.finish_cycle();
            arena.finish_cycle();
            if drops() != n + n / 2 {
                return Err(format!("every handle is gone and two cycles ran: {} of {} stashed values were destructed", drops(), n + n / 2));
            }
        }
        "cycles-many" => {
            // a long history instead of a large heap: tens of thousands of paced cycles over a small
            // live set with steady churn (drift of counters, debt that creeps, a heap that grows)
            const RING: usize = 512;
            let mut arena = Arena::<Rootable![Wide<'_>]>::new(|mc| {
                let w = wide(mc);
                let mut v = w.kids.borrow_mut(mc);
                for i in 0..RING {
                    v.push(Gc::new(mc, RefLock::new(Par { c: Cnt(i as u32), kid: None })));
                }
                drop(v);
                w
            });
            let m = arena.metrics().clone();
            let iters = (n / 2).max(10_000);
            let live = 3 + 2 * RING;
            for i in 0..iters {
                arena.mutate(|mc, root| {
                    root.kids.borrow_mut(mc)[i % RING] = Gc::new(mc, RefLock::new(Par { c: Cnt(i as u32), kid: Some(Gc::new(mc, Cnt(i as u32))) }));
                    garbage(mc, 3);
                });
                arena.collect_debt();
                let d = m.allocation_debt();
                if d != 0.0 {
                    return Err(format!("iteration {i}: collect_debt returned with allocation_debt = {d}"));
                }
                if m.total_gc_count() > 32 * live {
                    return Err(format!("iteration {i}: {live} objects are reachable, every call pays its debt, yet total_gc_count has grown to {}", m.total_gc_count()));
                }
                if i >= RING && i % 4096 == 0 {
                    arena.finish_cycle();
                    arena.finish_cycle();
                    let made = RING + 5 * (i + 1);
                    if m.total_gc_count() != live || drops() != made - 2 * RING {
                        return Err(format!("iteration {i}: after two full cycles total_gc_count reads {} (expected {live}) and {} of {made} values have been destructed (expected {})", m.total_gc_count(), drops(), made - 2 * RING));
                    }
                }
            }
            drop(arena);
            if drops() != RING + 5 * iters || m.total_gc_count() != 0 {
                return Err(format!("{} of {} destructors ran by the time the arena was gone, count {}", drops(), RING + 5 * iters, m.total_gc_count()));
            }
        }
        "carry-many" => {
            // with all work factors zero collection work pays nothing: a cycle that does not run
            // atomically carries its debt over unchanged - at the 3rd cycle and at the 3000th
            let mut arena = Arena::<Rootable![Wide<'_>]>::new(|mc| {
                let w = wide(mc);
                w.kids.borrow_mut(mc).push(Gc::new(mc, RefLock::new(Par { c: Cnt(0), kid: None })));
                w
            });
            arena.metrics().set_pacing(gc_arena::metrics::Pacing { sleep_factor: 0.0, min_sleep: 0, ..gc_arena::metrics::Pacing::STOP_THE_WORLD });
            let m = arena.metrics().clone();
            arena.finish_cycle();
            let iters = (n / 64).clamp(3_000, 30_000);
            for i in 0..iters {
                arena.finish_marking();
                let d0 = m.allocation_debt();
                m.adjust_debt(8.0);
                let before = m.allocation_debt();
                if before != d0 + 8.0 && d0 > 0.0 {
                    return Err(format!("cycle {i}: adjust_debt(8) took the debt from {d0} to {before}"));
                }
                arena.finish_cycle();
                let after = m.allocation_debt();
                if after != before {
                    return Err(format!("cycle {i}: all work factors are zero, yet finishing a cycle that did not run atomically took the debt from {before} to {after}"));
                }
                m.adjust_debt(-after);
            }
            if drops() != 0 {
                return Err(format!("{} reachable values destructed", drops()));
            }
        }
        "fanout-stepped" => {
            // marking paid one work unit at a time over a queue of n entries: a MarkedArena must not
            // be handed out before everything reachable is marked
            let n = n.min(400_000);
            let mut arena = Arena::<Rootable![Wide<'_>]>::new(|mc| {
                let w = wide(mc);
                let mut v = w.kids.borrow_mut(mc);
                for i in 0..n {
                    v.push(Gc::new(mc, RefLock::new(Par { c: Cnt(i as u32), kid: Some(Gc::new(mc, Cnt(i as u32))) })));
                }
                drop(v);
                w
            });
            let m = arena.metrics().clone();
            arena.finish_cycle();
            let mut calls = 0usize;
            let dead = loop {
                let d = m.allocation_debt();
                if !(d > 0.0) {
                    m.adjust_debt(1048576.0);
                }
                let d = m.allocation_debt();
                m.adjust_debt(1.0 / 1024.0 - d);
                calls += 1;
                if let Some(marked) = arena.mark_debt() {
                    break marked.finalize(|fc, root| root.kids.borrow().iter().filter(|p| Gc::is_dead(fc, **p) || p.borrow().kid.is_some_and(|k| Gc::is_dead(fc, k))).count());
                }
                if calls > 8 * n + 1000 {
                    return Err(format!("marking {n} objects one work unit at a time has not finished after {calls} calls"));
                }
            };
            if dead != 0 {
                return Err(format!("a MarkedArena was handed out after {calls} single-unit marking calls; {dead} of {n} strongly reachable objects (or their children) report is_dead"));
            }
            arena.finish_cycle();
            if drops() != 0 {
                return Err(format!("{} of {} reachable values were destructed", drops(), 2 * n));
            }
        }
        _ => return Err(format!("unknown scale variant {variant}")),
    }
    Ok(())
}

/// `sim scale-inner <variant> <n> <stack_kib>`
pub fn scale_inner_cmd(args: &[String]) -> i32 {
    let variant = args[0].clone();
    let n: usize = args[1].parse().unwrap_or(0);
    let kib: usize = args[2].parse().unwrap_or(256);
    let h = std::thread::Builder::new().stack_size(kib * 1024).spawn(move || scenario(&variant, n)).expect("spawn");
    match h.join() {
        Ok(Ok(())) => 0,
        Ok(Err(m)) => {
            println!("{m}");
            1
        }
        Err(_) => {
            println!("the scenario panicked");
            1
        }
    }
}

#[derive(Clone, Debug, serde::Serialize, serde::Deserialize)]
pub struct Plan {
    pub variant: String,
    pub n: usize,
    pub stack_kib: usize,
}

/// The plans a check of `prop` runs: for each of its variants, two (n, stack) pairs from the seed.
pub fn plans(prop: &str, seed: u64, thorough: bool) -> Vec<Plan> {
    let mut r = crate::rng::Rng::new(crate::rng::run_seed(seed, "scale", 0));
    let mut out = vec![];
    for (v, props) in VARIANTS {
        // draw for every variant, so that a plan does not depend on which property asks
        let reps = if thorough { 6 } else { 2 };
        for k in 0..reps {
            let n = if k == 0 { 300_000 + r.below(200_000) } else { 20_000 + r.below(if thorough { 1_500_000 } else { 300_000 }) };
            let stack_kib = [128usize, 256, 512, 1024][r.below(4)];
            if props.contains(&prop) {
                out.push(Plan { variant: v.to_string(), n, stack_kib });
            }
        }
    }
    out
}

pub enum Outcome {
    Held,
    Violated(String),
}

pub fn run_plan(p: &Plan) -> Outcome {
    let exe = std::env::current_exe().unwrap();
    let mut child = match Command::new(&exe).args(["scale-inner", &p.variant, &p.n.to_string(), &p.stack_kib.to_string()]).stdout(Stdio::piped()).stderr(Stdio::null()).spawn() {
        Ok(c) => c,
        Err(e) => return Outcome::Violated(format!("harness: cannot start the scenario process: {e}")),
    };
    let t0 = std::time::Instant::now();
    let limit = Duration::from_secs(std::env::var("VERIF_SCALE_LIMIT_S").ok().and_then(|s| s.parse().ok()).unwrap_or(120));
    let st = loop {
        match child.try_wait() {
            Ok(Some(s)) => break Some(s),
            Ok(None) if t0.elapsed() > limit => {
                let _ = child.kill();
                let _ = child.wait();
                break None;
            }
            Ok(None) => std::thread::sleep(Duration::from_millis(5)),
            Err(_) => break None,
        }
    };
    let mut text = String::new();
    if let Some(mut o) = child.stdout.take() {
        use std::io::Read;
        let _ = o.read_to_string(&mut text);
    }
    match st {
        Some(s) if s.code() == Some(0) => Outcome::Held,
        Some(s) if s.code() == Some(1) => Outcome::Violated(text.trim().to_string()),
        Some(s) => Outcome::Violated(format!("the process running the scenario on a {} KiB stack died ({s}): the work done per object is not constant in stack", p.stack_kib)),
        None => Outcome::Violated(format!("the scenario did not end within {}s", limit.as_secs())),
    }
}
