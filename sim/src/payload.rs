//! Client object model: the payload types the generated client program allocates and mutates.
//! Every kind is a distinct Rust type so that every write route is the real one users take.

use std::cell::Cell;
use std::collections::{BTreeMap, HashMap, VecDeque};
use std::hash::BuildHasherDefault;

use gc_arena::{
    Collect, DynamicRootSet, Gc, GcWeak, Lock, Mutation, RefLock, Rootable, SliceWithHeader,
    collect::Trace,
    lock::OnceLock,
};

use crate::tok::{FaultPoint, Id, Tok};

pub type FixedHasher = BuildHasherDefault<std::collections::hash_map::DefaultHasher>;

// ------------------------------------------------------------------------------------------------
// kinds

macro_rules! any_ptr {
    ($gc:lifetime; $( $V:ident => $G:ty, $W:ty ),* $(,)?) => {
        /// A strong pointer to any client object, in the representation it is stored in.
        #[derive(Collect, Clone, Copy)]
        #[collect(no_drop)]
        pub enum AnyGc<$gc> { $( $V($G) ),* }

        /// A weak pointer to any client object.
        #[derive(Collect, Clone, Copy)]
        #[collect(no_drop)]
        pub enum AnyWeak<$gc> { $( $V($W) ),* }

        impl<$gc> AnyGc<$gc> {
            pub fn downgrade(self) -> AnyWeak<$gc> {
                match self { $( AnyGc::$V(g) => AnyWeak::$V(Gc::downgrade(g)) ),* }
            }
            pub fn erase(self) -> Gc<$gc, ()> {
                match self { $( AnyGc::$V(g) => Gc::erase(g) ),* }
            }
            pub fn addr(self) -> usize {
                match self { $( AnyGc::$V(g) => Gc::as_ptr(g) as *const () as usize ),* }
            }
            pub fn is_dead(self, fc: &gc_arena::Finalization<$gc>) -> bool {
                match self { $( AnyGc::$V(g) => Gc::is_dead(fc, g) ),* }
            }
            pub fn resurrect(self, fc: &gc_arena::Finalization<$gc>) {
                match self { $( AnyGc::$V(g) => Gc::resurrect(fc, g) ),* }
            }
        }

        impl<$gc> AnyWeak<$gc> {
            pub fn upgrade(self, mc: &Mutation<$gc>) -> Option<AnyGc<$gc>> {
                match self { $( AnyWeak::$V(w) => w.upgrade(mc).map(AnyGc::$V) ),* }
            }
            pub fn is_dropped(self) -> bool {
                match self { $( AnyWeak::$V(w) => w.is_dropped() ),* }
            }
            pub fn is_dead(self, fc: &gc_arena::Finalization<$gc>) -> bool {
                match self { $( AnyWeak::$V(w) => w.is_dead(fc) ),* }
            }
            pub fn resurrect(self, fc: &gc_arena::Finalization<$gc>) -> Option<AnyGc<$gc>> {
                match self { $( AnyWeak::$V(w) => w.resurrect(fc).map(AnyGc::$V) ),* }
            }
            pub fn erase(self) -> GcWeak<$gc, ()> {
                match self { $( AnyWeak::$V(w) => GcWeak::erase(w) ),* }
            }
            pub fn addr(self) -> usize {
                match self { $( AnyWeak::$V(w) => w.as_ptr() as *const () as usize ),* }
            }
        }
    };
}

pub type SliceElem<'gc> = Lock<Option<AnyGc<'gc>>>;
type SP = gc_arena::slice::SlicePtrMeta;
type HP = gc_arena::slice::SliceWithHeaderPtrMeta;
type KFat<P> = gc_arena::gc::GcKind<gc_arena::gc::Fat, (), P>;
type KThin<P> = gc_arena::gc::GcKind<gc_arena::gc::Thin, (), P>;
/// The kind of a Node allocated with per-type metadata (`GcBuilder::new_with_type_meta`).
pub type KNodeM = gc_arena::gc::GcKind<gc_arena::gc::Fat, NodeTag, gc_arena::meta::UnitPtrMeta>;

/// Per-type metadata carried by some Node allocations: two instantiations for the same value type,
/// i.e. two further vtables for `RefLock<NodeBody>` besides the one `Gc::new` uses.
#[derive(Debug, PartialEq, Eq)]
pub struct NodeTag {
    pub tag: u32,
}
pub struct TagA;
pub struct TagB;
impl gc_arena::meta::TypeMeta for TagA {
    type TypeMetadata = NodeTag;
    const TYPE_METADATA: &'static NodeTag = &NodeTag { tag: 0xA };
}
impl gc_arena::meta::TypeMeta for TagB {
    type TypeMetadata = NodeTag;
    const TYPE_METADATA: &'static NodeTag = &NodeTag { tag: 0xB };
}
/// Which allocation route a Node with this id takes (a pure function of the id, so that a
/// converted pointer can be given back its real kind): 0 = `Gc::new`, 1 / 2 = type metadata A / B
/// followed by `Gc::erase_kind`.
pub fn node_tag_of(id: Id) -> u8 {
    match id % 7 {
        3 => 1,
        5 => 2,
        _ => 0,
    }
}

any_ptr! { 'gc;
    Node => Gc<'gc, RefLock<NodeBody<'gc>>>, GcWeak<'gc, RefLock<NodeBody<'gc>>>,
    Field => Gc<'gc, FieldNode<'gc>>, GcWeak<'gc, FieldNode<'gc>>,
    Raw => Gc<'gc, RawNode<'gc>>, GcWeak<'gc, RawNode<'gc>>,
    Cell => Gc<'gc, Lock<CellBody<'gc>>>, GcWeak<'gc, Lock<CellBody<'gc>>>,
    Once => Gc<'gc, OnceLock<OnceBody<'gc>>>, GcWeak<'gc, OnceLock<OnceBody<'gc>>>,
    Leaf => Gc<'gc, RefLock<LeafBody>>, GcWeak<'gc, RefLock<LeafBody>>,
    LeafLock => Gc<'gc, Lock<u64>>, GcWeak<'gc, Lock<u64>>,
    LeafStatic => Gc<'gc, LeafBody>, GcWeak<'gc, LeafBody>,
    SetHolder => Gc<'gc, SetHolder<'gc>>, GcWeak<'gc, SetHolder<'gc>>,
    // dynamically sized objects carrying edges
    Slice => Gc<'gc, [SliceElem<'gc>], KFat<SP>>, GcWeak<'gc, [SliceElem<'gc>], KFat<SP>>,
    ThinSlice => Gc<'gc, [SliceElem<'gc>], KThin<SP>>, GcWeak<'gc, [SliceElem<'gc>], KThin<SP>>,
    Swh => Gc<'gc, SliceWithHeader<SwhHead<'gc>, SliceElem<'gc>>, KFat<HP>>, GcWeak<'gc, SliceWithHeader<SwhHead<'gc>, SliceElem<'gc>>, KFat<HP>>,
    ThinSwh => Gc<'gc, SliceWithHeader<SwhHead<'gc>, SliceElem<'gc>>, KThin<HP>>, GcWeak<'gc, SliceWithHeader<SwhHead<'gc>, SliceElem<'gc>>, KThin<HP>>,
    // type-erased leaves of the layout family and of the builders (what they are is in the shadow)
    Opaque => Gc<'gc, ()>, GcWeak<'gc, ()>,
    // converted representations of a pointer to a Node (C19): erased, and unsized to a trait object
    NodeE => Gc<'gc, ()>, GcWeak<'gc, ()>,
    NodeD => Gc<'gc, dyn DynNode<'gc> + 'gc>, GcWeak<'gc, dyn DynNode<'gc> + 'gc>,
    Bag => Gc<'gc, RefLock<BagBody<'gc>>>, GcWeak<'gc, RefLock<BagBody<'gc>>>,
    ZLeaf => Gc<'gc, crate::tok::ZTok>, GcWeak<'gc, crate::tok::ZTok>,
    SwhPod => Gc<'gc, SliceWithHeader<SwhHead<'gc>, u8>, KFat<HP>>, GcWeak<'gc, SliceWithHeader<SwhHead<'gc>, u8>, KFat<HP>>,
    CellP => Gc<'gc, Lock<PackedBody<'gc>>>, GcWeak<'gc, Lock<PackedBody<'gc>>>,
    // immutable objects made through the copy path: their elements ARE pointers
    CopySlice => Gc<'gc, [Edge<'gc>], KFat<SP>>, GcWeak<'gc, [Edge<'gc>], KFat<SP>>,
    CopySwh => Gc<'gc, SliceWithHeader<CopyHead<'gc>, Edge<'gc>>, KFat<HP>>, GcWeak<'gc, SliceWithHeader<CopyHead<'gc>, Edge<'gc>>, KFat<HP>>,
    // a Node allocated with per-type metadata, in the kind it was allocated with
    NodeM => Gc<'gc, RefLock<NodeBody<'gc>>, KNodeM>, GcWeak<'gc, RefLock<NodeBody<'gc>>, KNodeM>,
    // a RefLock whose write guard the client may leak
    Leaky => Gc<'gc, RefLock<LeakyBody<'gc>>>, GcWeak<'gc, RefLock<LeakyBody<'gc>>>,
}

/// Behind a RefLock whose write guard may be leaked by the client (safe code): the harness only
/// ever looks inside with `try_borrow`.
#[derive(Collect)]
#[collect(no_drop)]
pub struct LeakyBody<'gc> {
    pub id: Id,
    pub tok: Tok,
    pub e: Edge<'gc>,
}

/// The trait Node pointers are unsized to.
pub trait DynNode<'gc>: gc_arena::collect::DynCollect<'gc> {
    fn dyn_id(&self) -> Id;
}
impl<'gc> DynNode<'gc> for RefLock<NodeBody<'gc>> {
    fn dyn_id(&self) -> Id {
        self.borrow().id
    }
}
gc_arena::collect::dyn_collect!(dyn DynNode<'gc> + 'gc);

/// Header of the edge-carrying slice-with-header kind.
#[derive(Collect)]
#[collect(no_drop)]
pub struct SwhHead<'gc> {
    pub id: Id,
    pub tok: Tok,
    pub fp: FaultPoint,
    pub slot: Lock<Option<AnyGc<'gc>>>,
}

/// A `repr(packed)` payload: alignment 1, yet it holds pointers (the classic tag-plus-pointer value).
#[derive(Clone, Copy)]
#[repr(C, packed)]
pub struct PackedBody<'gc> {
    pub tag: u8,
    pub id: Id,
    pub e: Option<AnyGc<'gc>>,
    pub w: Option<AnyWeak<'gc>>,
}
unsafe impl<'gc> Collect<'gc> for PackedBody<'gc> {
    const NEEDS_TRACE: bool = true;
    fn trace<T: Trace<'gc>>(&self, cc: &mut T) {
        // packed fields are read by copy, never borrowed
        let e = self.e;
        let w = self.w;
        cc.trace(&e);
        cc.trace(&w);
    }
}

/// Header of the copy-path slice-with-header kind: it holds an edge of its own.
#[derive(Collect)]
#[collect(no_drop)]
pub struct CopyHead<'gc> {
    pub id: Id,
    pub tok: Tok,
    pub e: Option<AnyGc<'gc>>,
}

pub type Edge<'gc> = Option<AnyGc<'gc>>;
pub type WEdge<'gc> = Option<AnyWeak<'gc>>;

/// The general-purpose node: a `RefLock`-guarded body, mutated through `Gc<RefLock<_>>::borrow_mut`.
#[derive(Collect)]
#[collect(no_drop)]
pub struct NodeBody<'gc> {
    pub id: Id,
    pub tok: Tok,
    pub strong: Vec<Edge<'gc>>,
    /// sits between the strong and the weak edges, so a trace panic lands mid-object
    pub fp: FaultPoint,
    pub weak: Vec<WEdge<'gc>>,
}
pub const NODE_STRONG: usize = 4;
pub const NODE_WEAK: usize = 2;

/// A plain struct whose *fields* are locks, mutated through `Gc::write` + projection. One strong
/// slot per projection route (the slot index selects the route).
#[derive(Collect)]
#[collect(no_drop)]
pub struct FieldNode<'gc> {
    pub id: Id,
    pub tok: Tok,
    pub a: Lock<Edge<'gc>>,                          // 0: field! + unlock (Cell)
    pub b: RefLock<Edge<'gc>>,                       // 1: unlock! (RefCell)
    pub bx: Box<Lock<Edge<'gc>>>,                    // 2: field! + as_deref (Box)
    pub arr: [Lock<Edge<'gc>>; 2],                   // 3,4: field! + index (array)
    pub vec: Vec<Lock<Edge<'gc>>>,                   // 5: field! + index (Vec), 6: as_deref (Vec -> slice) + index
    pub vd: VecDeque<Lock<Edge<'gc>>>,               // 7: field! + index (VecDeque)
    pub bm: BTreeMap<u8, Lock<Edge<'gc>>>,           // 8: field! + index (BTreeMap)
    pub hm: HashMap<u8, Lock<Edge<'gc>>, FixedHasher>, // 9: field! + index (HashMap)
    pub opt: Option<Lock<Edge<'gc>>>,                // 10: field! + as_write (Option)
    pub res: Result<Lock<Edge<'gc>>, Lock<Edge<'gc>>>, // 11: field! + as_write (Result)
    pub inner: Inner<'gc>,                           // 12: nested field! projection
    pub once: OnceLock<AnyGc<'gc>>,                  // 13: field! + unlock (OnceCell), set once
    pub fp: FaultPoint,
    pub w: Lock<WEdge<'gc>>,                         // weak 0
    pub wv: RefLock<Vec<WEdge<'gc>>>,                // weak 1
}
pub const FIELD_STRONG: usize = 14;
pub const FIELD_ONCE_SLOT: usize = 13;
pub const FIELD_WEAK: usize = 2;

#[derive(Collect)]
#[collect(no_drop)]
pub struct Inner<'gc> {
    pub pad: u32,
    pub slot: Lock<Edge<'gc>>,
}

/// Hand-written `Collect` over plain `Cell` fields: the one place the client itself relies on
/// explicit barrier calls (as in tests::barriers).
pub struct RawNode<'gc> {
    pub id: Id,
    pub tok: Tok,
    pub s: [Cell<Edge<'gc>>; 2],
    pub fp: FaultPoint,
    pub w: [Cell<WEdge<'gc>>; 2],
}
pub const RAW_STRONG: usize = 2;
pub const RAW_WEAK: usize = 2;

unsafe impl<'gc> Collect<'gc> for RawNode<'gc> {
    const NEEDS_TRACE: bool = true;
    fn trace<T: Trace<'gc>>(&self, cc: &mut T) {
        // the first slot of each kind is traced directly, the second through a trait object
        // (`dyn DynCollect`: the object-safe adapter the crate provides for user trait objects),
        // which has to hand strong pointers on as strong and weak pointers as weak
        cc.trace(&self.s[0].get());
        let s1 = self.s[1].get();
        let d: &(dyn DynEdge<'gc> + 'gc) = &s1;
        cc.trace(d);
        cc.trace(&self.fp);
        cc.trace(&self.w[0].get());
        let w1 = self.w[1].get();
        let d: &(dyn DynEdge<'gc> + 'gc) = &w1;
        cc.trace(d);
    }
}

/// An edge that sits in a *key* position (BTreeMap key, BTreeSet / BinaryHeap element): ordered
/// and compared by `k` alone, so that nothing ever depends on an address.
#[derive(Collect, Clone, Copy)]
#[collect(no_drop)]
pub struct Keyed<'gc> {
    pub k: u8,
    pub e: Edge<'gc>,
}
impl PartialEq for Keyed<'_> {
    fn eq(&self, o: &Self) -> bool {
        self.k == o.k
    }
}
impl Eq for Keyed<'_> {}
impl PartialOrd for Keyed<'_> {
    fn partial_cmp(&self, o: &Self) -> Option<std::cmp::Ordering> {
        Some(self.cmp(o))
    }
}
impl Ord for Keyed<'_> {
    fn cmp(&self, o: &Self) -> std::cmp::Ordering {
        self.k.cmp(&o.k)
    }
}

/// Derived enums whose variants mix `require_static` fields and pointer fields at the same positions.
#[derive(Collect)]
#[collect(no_drop)]
pub enum Slotty<'gc> {
    Label(#[collect(require_static)] String),
    Ptr(Edge<'gc>),
}
#[derive(Collect)]
#[collect(no_drop)]
pub enum Linky<'gc> {
    Named {
        #[collect(require_static)]
        name: u8,
        next: Edge<'gc>,
    },
    Back {
        prev: Edge<'gc>,
        tag: u8,
    },
}

/// A ring buffer whose contents wrap around the end of its storage (as any queue does once it has
/// cycled past its capacity): four elements, the last two in the second of `as_slices()`.
pub fn wrapped_deque<T: Clone>(fill: T) -> VecDeque<T> {
    let mut d = VecDeque::with_capacity(4);
    let cap = d.capacity();
    for _ in 0..cap {
        d.push_back(fill.clone());
    }
    for _ in 0..cap - 2 {
        d.pop_front();
    }
    for _ in 0..2 {
        d.push_back(fill.clone());
    }
    d
}
pub const DEQUE_SLOT: usize = 2;

/// Edges in every element position of the std containers the crate provides `Collect` impls for.
/// Mutated as a whole through `Gc<RefLock<_>>::borrow_mut` (one barrier on the object), so what
/// this kind exercises is the *tracing* of each position.
#[derive(Collect)]
#[collect(no_drop)]
pub struct BagBody<'gc> {
    pub id: Id,
    pub tok: Tok,
    pub t1: (Edge<'gc>,),                              // 0: 1-tuple
    pub t2: (u8, Edge<'gc>),                           // 1: last position, the only pointer
    pub t3: (Edge<'gc>, u8, WEdge<'gc>),               // 2: first position; weak 0: last position
    pub t4: (u8, (u16, Edge<'gc>), u8),                // 3: nested tuple, middle
    pub arr: [Edge<'gc>; 2],                           // 4, 5
    pub bx: Box<Edge<'gc>>,                            // 6
    pub rc: std::rc::Rc<Edge<'gc>>,                    // 7 (written by replacing the Rc)
    pub ll: std::collections::LinkedList<Edge<'gc>>,   // 8
    pub vd: VecDeque<Edge<'gc>>,                       // 9
    pub bh: std::collections::BinaryHeap<Keyed<'gc>>,  // 10
    pub bm: BTreeMap<u8, Edge<'gc>>,                   // 11: value position
    pub bk: BTreeMap<Keyed<'gc>, u8>,                  // 12: key position
    pub bs: std::collections::BTreeSet<Keyed<'gc>>,    // 13
    pub hm: HashMap<u8, Edge<'gc>, FixedHasher>,       // 14
    pub opt: Option<Option<Edge<'gc>>>,                // 15: nested Option
    pub res: Result<u8, Edge<'gc>>,                    // 16: Err position
    pub en: Slotty<'gc>,                               // 17: tuple variant next to a require_static one
    pub ln: Linky<'gc>,                                // 18: struct variant, same position as a require_static field
    pub fp: FaultPoint,
    pub wt: (u8, WEdge<'gc>),                          // weak 1: last position of a tuple
    pub wo: Option<Box<WEdge<'gc>>>,                   // weak 2
}
pub const BAG_STRONG: usize = 19;
pub const BAG_WEAK: usize = 3;

/// A user trait object made collectable with `dyn_collect!`: whatever is traced through it goes
/// through the crate's object-safe adapter (`DynCollect::dyn_trace`).
pub trait DynEdge<'gc>: gc_arena::collect::DynCollect<'gc> {}
impl<'gc, T: Collect<'gc>> DynEdge<'gc> for T {}
gc_arena::collect::dyn_collect!(dyn DynEdge<'gc> + 'gc);

/// `Gc<Lock<CellBody>>`: a one-strong-one-weak cell mutated through `Gc<Lock<_>>::set`. No
/// destructor (Copy), so it is only visible at the allocator seam.
pub type CellBody<'gc> = (Id, Edge<'gc>, WEdge<'gc>);

/// `Gc<OnceLock<OnceBody>>`: set at most once, through `set` or `get_or_init`.
pub type OnceBody<'gc> = (Id, AnyGc<'gc>);

/// Payload that needs no tracing (`NEEDS_TRACE = false`), behind three different wrappers.
pub struct LeafBody {
    pub id: Id,
    pub tok: Tok,
    pub val: Cell<u64>,
}
gc_arena::static_collect!(LeafBody);

/// An object that owns a `DynamicRootSet` (so a set can become unreachable).
#[derive(Collect)]
#[collect(no_drop)]
pub struct SetHolder<'gc> {
    pub id: Id,
    pub tok: Tok,
    pub set: DynamicRootSet<'gc>,
}

// ------------------------------------------------------------------------------------------------
// roots

pub const ROOT_STRONG: usize = 4;
pub const ROOT_WEAK: usize = 2;

#[derive(Collect)]
#[collect(no_drop)]
pub struct RootBody<'gc> {
    pub slots: Vec<Edge<'gc>>,
    pub fp: FaultPoint,
    pub weak: Vec<WEdge<'gc>>,
    /// the root's own DynamicRootSet (set index 0 of the arena); None in a "bare" arena, which
    /// can become completely empty
    pub set: Option<DynamicRootSet<'gc>>,
    pub zst: Option<gc_arena::zst_cache::ZstCache<'gc, 16>>,
}

/// Two root types so that `map_root` / `try_map_root` really change the root type.
#[derive(Collect)]
#[collect(no_drop)]
pub struct RootA<'gc> {
    pub body: RootBody<'gc>,
}

#[derive(Collect)]
#[collect(no_drop)]
pub struct RootB<'gc> {
    pub generation: u32,
    pub body: RootBody<'gc>,
}

/// A root that holds no pointers at all (`NEEDS_TRACE = false`): everything such an arena
/// allocates is garbage as soon as the callback returns, yet every call contract still applies.
#[derive(Collect)]
#[collect(require_static)]
pub struct RootS {
    pub generation: u32,
}
pub type ArenaS = gc_arena::Arena<Rootable![RootS]>;

/// What callbacks of an arena with a pointer-free root are shown instead of a root body: empty and
/// never written to.
pub fn empty_root_body<'gc>(site: u32) -> RootBody<'gc> {
    RootBody { slots: vec![None; ROOT_STRONG], fp: FaultPoint(site), weak: vec![None; ROOT_WEAK], set: None, zst: None }
}

pub type ArenaA = gc_arena::Arena<Rootable![RootA<'_>]>;
pub type ArenaB = gc_arena::Arena<Rootable![RootB<'_>]>;

/// What a stashed handle points at: handles are typed, we stash `Node`s and `Field`s.
pub type NodeRootable = Rootable![RefLock<NodeBody<'_>>];
pub type FieldRootable = Rootable![FieldNode<'_>];
pub type NodeHandle = gc_arena::DynamicRoot<NodeRootable>;
pub type FieldHandle = gc_arena::DynamicRoot<FieldRootable>;
