//! Run shapes (DESIGN 2.9): how the executions belonging to one run index are built.

use crate::ops::*;
use crate::props::{self, Shape};
use crate::rng;
use crate::run::{self, BatchStats, RunOutcome};
use crate::world::{ExecCfg, Violation};

#[derive(Clone, Debug, serde::Serialize, serde::Deserialize)]
pub struct Found {
    pub prop: String,
    pub idx: u64,
    pub sub: u32,
    pub seed: u64,
    /// oracle id as reported (borrowed ids are prefixed with the borrowing property)
    pub oracle: String,
    pub viol: Violation,
    pub trace: Trace,
    pub digest: u64,
}

pub struct Sink<'a> {
    pub prop: &'a str,
    pub verif_seed: u64,
    pub bs: &'a mut BatchStats,
    pub found: &'a mut Vec<Found>,
    pub samples: &'a mut Vec<serde_json::Value>,
    pub ecfg: ExecCfg,
}

fn strip_faults(t: &Trace) -> Trace {
    let mut events = vec![];
    for e in &t.events {
        match e {
            Event::ArmTraceFault { .. } | Event::ArmDropFault { .. } => {}
            Event::Mutate { a, cb, ops } => {
                let cb = if *cb == CbKind::TryMapRootErr { CbKind::TryMapRoot } else { *cb };
                events.push(Event::Mutate { a: *a, cb, ops: ops.iter().filter(|o| !matches!(o, Op::Panic)).cloned().collect() })
            }
            Event::Collect { a, debt, call, then } => {
                let then = match then {
                    MarkedAction::Finalize(ops) => MarkedAction::Finalize(ops.iter().filter(|o| !matches!(o, Op::Panic)).cloned().collect()),
                    o => o.clone(),
                };
                events.push(Event::Collect { a: *a, debt: *debt, call: *call, then })
            }
            Event::NewArena { a, root_set, ops, p, fail, bare, static_root } => {
                let fail = if *fail == CtorFail::TryNewErr { CtorFail::TryNewOk } else { *fail };
                events.push(Event::NewArena { a: *a, root_set: *root_set, ops: ops.iter().filter(|o| !matches!(o, Op::Panic)).cloned().collect(), p: *p, fail, bare: *bare, static_root: *static_root })
            }
            e => events.push(e.clone()),
        }
    }
    Trace { events, suffix: t.suffix, quarantine: t.quarantine, recycle: t.recycle }
}

/// Projection of a trace onto one arena (C20 twin): only events that act on arena `a`, and
/// handle events of handles stashed there.
fn project(t: &Trace, a: Aid) -> Trace {
    let mut hids = std::collections::BTreeSet::new();
    let mut events = vec![];
    for e in &t.events {
        let keep = match e {
            Event::Mutate { a: x, ops, .. } => {
                if *x == a {
                    for o in ops {
                        if let Op::Stash { handle, .. } = o {
                            hids.insert(*handle);
                        }
                    }
                }
                *x == a
            }
            Event::Collect { a: x, .. } | Event::SetPacing { a: x, .. } | Event::AdjustDebt { a: x, .. } | Event::NewArena { a: x, .. } | Event::DropArena { a: x } | Event::Rootless { a: x, .. } => *x == a,
            Event::Handle { h, op } => {
                let k = hids.contains(h);
                if k {
                    if let HandleOp::Clone { new } = op {
                        hids.insert(*new);
                    }
                }
                k
            }
            Event::ArmTraceFault { .. } | Event::ArmDropFault { .. } => true,
        };
        if keep {
            events.push(e.clone());
        }
    }
    Trace { events, suffix: t.suffix, quarantine: t.quarantine, recycle: t.recycle }
}

impl<'a> Sink<'a> {
    /// Take one finished execution into the batch: statistics, samples, and - if it violated an
    /// oracle this property owns or may borrow - a `Found`.
    pub fn take(&mut self, idx: u64, sub: u32, seed: u64, o: RunOutcome) {
        let nt = props::nontrivial(self.prop, &o.stats.flags, &o.stats);
        self.bs.add(&o, nt);
        if self.samples.len() < 2 && nt && o.viol.is_none() {
            self.samples.push(sample_of(idx, sub, &o));
        }
        let Some(v) = o.viol.clone() else { return };
        let mut oracle = props::owns_any(self.prop, &v).unwrap_or(&v.oracle).to_string();
        let owned = props::owns(self.prop, &oracle);
        let base = oracle.len() >= 3 && matches!(&oracle[..3], "C01" | "C02" | "C03" | "C04" | "C05");
        let mut report = owned;
        if !owned && base {
            // relative properties borrow the C01-C05 oracles, but only when the differential twin
            // of the run is clean (DESIGN 3): otherwise the tree is broken for the base property
            // and that property's own check is the one to report it
            let twin = match self.prop {
                "C11" => {
                    let faulted = o.stats.faults_fired > 0 || o.stats.callback_panics > 0 || o.stats.ctor_failures > 0;
                    if faulted { Some(strip_faults(&o.trace)) } else { None }
                }
                "C20" => {
                    let multi = o.trace.events.iter().filter(|e| matches!(e, Event::NewArena { .. })).count() > 1;
                    // the arena the violated value lives in: try each projection
                    if multi { Some(o.trace.clone()) } else { None }
                }
                _ => None,
            };
            if let Some(t) = twin {
                let clean = if self.prop == "C20" {
                    let arenas: Vec<Aid> = t.events.iter().filter_map(|e| if let Event::NewArena { a, .. } = e { Some(*a) } else { None }).collect();
                    arenas.iter().all(|a| run::run_replay(&project(&t, *a), &self.ecfg).viol.is_none())
                } else {
                    run::run_replay(&t, &self.ecfg).viol.is_none()
                };
                if clean {
                    oracle = format!("{}.{}", self.prop, oracle);
                    report = true;
                }
            }
        }
        if report {
            if self.found.iter().filter(|f| f.oracle == oracle).count() < 3 {
                self.found.push(Found { prop: self.prop.to_string(), idx, sub, seed, oracle, viol: v, trace: o.trace.clone(), digest: o.digest });
            }
        } else {
            *self.bs.foreign.entry(v.oracle.clone()).or_insert(0) += 1;
        }
    }
}

pub fn sample_of(idx: u64, sub: u32, o: &RunOutcome) -> serde_json::Value {
    let evs: Vec<serde_json::Value> = o.trace.events.iter().take(10).map(|e| serde_json::to_value(e).unwrap()).collect();
    serde_json::json!({
        "run_index": idx,
        "sub": sub,
        "events_total": o.trace.events.len(),
        "first_events": evs,
        "suffix": format!("{:?}", o.trace.suffix),
        "flags": o.stats.flags,
        "signature": format!("{:016x}", o.sig),
        "log_digest": format!("{:016x}", o.digest),
    })
}

/// All executions of run index `idx` of property `prop`.
pub fn exec_index(sink: &mut Sink<'_>, idx: u64) {
    let prop = sink.prop.to_string();
    let rs = rng::run_seed(sink.verif_seed, &prop, idx);
    let (g, suffix, shape) = props::swarm(&prop, rs);
    let ecfg = sink.ecfg.clone();
    match shape {
        Shape::Free => {
            let o = run::run_generated(rs, &g, &ecfg, suffix);
            sink.take(idx, 0, rs, o);
        }
        Shape::Prefix => {
            // the schedule, generated once with no suffix
            let base = run::run_generated(rs, &g, &ecfg, Suffix::None);
            let events = base.trace.events.clone();
            let failed = base.viol.is_some();
            sink.take(idx, 0, rs, base);
            if failed {
                return;
            }
            // every prefix of it, followed by the suffix
            for j in 1..=events.len() {
                let t = Trace { events: events[..j].to_vec(), suffix, quarantine: g.quarantine, recycle: g.recycle };
                let o = run::run_replay(&t, &ecfg);
                let bad = o.viol.is_some();
                sink.take(idx, j as u32, rs, o);
                if bad {
                    break;
                }
            }
        }
        Shape::FaultPositions => {
            // the fault-free schedule
            let base = run::run_generated(rs, &g, &ecfg, Suffix::None);
            let events = base.trace.events.clone();
            let ticks = base.stats.trace_ticks;
            let failed = base.viol.is_some();
            sink.take(idx, 0, rs, base);
            if failed {
                return;
            }
            let mut sub = 0u32;
            let mut r = rng::Rng::new(rs ^ 0xFA17);
            // a panic at the k-th trace call, single and repeated
            let positions: Vec<u64> = if ticks <= 48 { (1..=ticks).collect() } else { (0..48).map(|_| 1 + r.below(ticks as usize) as u64).collect() };
            for k in positions {
                sub += 1;
                let repeat = if r.chance(1, 3) { 1 + r.below(4) as u32 } else { 1 };
                let mut ev2 = vec![events[0].clone(), Event::ArmTraceFault { at: k, repeat }];
                ev2.extend(events[1..].iter().cloned());
                let t = Trace { events: ev2, suffix, quarantine: g.quarantine, recycle: g.recycle };
                let o = run::run_replay(&t, &ecfg);
                let bad = o.viol.is_some();
                sink.take(idx, sub, rs, o);
                if bad {
                    return;
                }
            }
            // a panic at each op index of each callback (all kinds), and Err from the fallible ones
            for (i, e) in events.iter().enumerate() {
                let nops = match e {
                    Event::Mutate { ops, .. } => ops.len(),
                    Event::NewArena { ops, .. } if i > 0 => ops.len(),
                    Event::Collect { then: MarkedAction::Finalize(ops), .. } => ops.len(),
                    _ => continue,
                };
                for j in 0..=nops {
                    sub += 1;
                    let mut ev2 = events.clone();
                    match &mut ev2[i] {
                        Event::Mutate { ops, .. } | Event::NewArena { ops, .. } | Event::Collect { then: MarkedAction::Finalize(ops), .. } => ops.insert(j, Op::Panic),
                        _ => {}
                    }
                    let t = Trace { events: ev2, suffix, quarantine: g.quarantine, recycle: g.recycle };
                    let o = run::run_replay(&t, &ecfg);
                    let bad = o.viol.is_some();
                    sink.take(idx, sub, rs, o);
                    if bad {
                        return;
                    }
                }
                // the fallible variants returning Err
                let mut ev2 = events.clone();
                let changed = match &mut ev2[i] {
                    Event::Mutate { cb, .. } if matches!(cb, CbKind::TryMapRoot | CbKind::MapRoot) => {
                        *cb = CbKind::TryMapRootErr;
                        true
                    }
                    Event::NewArena { fail, .. } if i > 0 => {
                        *fail = CtorFail::TryNewErr;
                        true
                    }
                    _ => false,
                };
                if changed {
                    sub += 1;
                    let t = Trace { events: ev2, suffix, quarantine: g.quarantine, recycle: g.recycle };
                    let o = run::run_replay(&t, &ecfg);
                    let bad = o.viol.is_some();
                    sink.take(idx, sub, rs, o);
                    if bad {
                        return;
                    }
                }
            }
        }
    }
}
