//! Deterministic simulation with fault injection for kyren/gc-arena (see /verif/DESIGN.md).
pub mod access;
pub mod cb;
pub mod collect;
pub mod events;
pub mod genr;
pub mod lay;
pub mod probe;
pub mod props;
pub mod run;
pub mod scale;
pub mod shapes;
pub mod driver;
pub mod ops;
pub mod payload;
pub mod rng;
pub mod seam;
pub mod shadow;
pub mod tok;
pub mod world;

#[cfg(not(miri))]
#[global_allocator]
static GLOBAL: seam::Seam = seam::Seam;
