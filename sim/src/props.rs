//! Per-property configuration: how runs are built from a seed (swarm), which run shape is used,
//! which oracle ids a check may raise, and what makes a run non-trivial for the property.

use crate::genr::*;
use crate::ops::*;
use crate::rng::Rng;

pub const CLAIMED: &[&str] = &["C01", "C02", "C03", "C04", "C05", "C06", "C07", "C08", "C09", "C10", "C11", "C13", "C14", "C17", "C18", "C19", "C20"];

#[derive(Clone, Copy, Debug, PartialEq, Eq)]
pub enum Shape {
    /// free run + settle
    Free,
    /// every prefix of a schedule followed by the suffix
    Prefix,
    /// fault-free schedule, then one re-run per fault position
    FaultPositions,
}

pub fn dyadic_pacing(f: f64, sleep: f64, min_sleep: u32) -> PacingSpec {
    PacingSpec { sleep_factor: sleep, min_sleep, mark: f, trace: f, keep: f, drop: f / 2.0, free: f / 2.0 }
}

pub fn pacing_family(r: &mut Rng, c09: bool) -> Vec<PacingSpec> {
    let mut v = vec![];
    let n = 1 + r.below(3);
    for _ in 0..n {
        let min_sleep = [0u32, 0, 1, 2, 4, 8, 64][r.below(7)];
        let sleep = [0.0, 0.25, 0.5, 1.0, 1.5][r.below(5)];
        let choice = r.below(if c09 { 8 } else { 10 });
        v.push(match choice {
            0 | 1 => dyadic_pacing(0.25, sleep, min_sleep),
            2 => dyadic_pacing(1.0 / 16.0, sleep, min_sleep),
            3 => dyadic_pacing(1.0 / 32.0, sleep, min_sleep),
            // path sums 1/2, 7/8, 63/64 split unevenly
            4 => PacingSpec { sleep_factor: sleep, min_sleep, mark: 0.125, trace: 0.25, keep: 0.125, drop: 0.25, free: 0.25 },
            5 => PacingSpec { sleep_factor: sleep, min_sleep, mark: 0.25, trace: 0.5, keep: 0.125, drop: 0.5, free: 0.375 },
            6 => PacingSpec { sleep_factor: sleep, min_sleep, mark: 0.5, trace: 0.25, keep: 0.234375, drop: 0.234375, free: 0.75 },
            // stop the world
            7 => PacingSpec { sleep_factor: sleep.max(0.5), min_sleep, mark: 0.0, trace: 0.0, keep: 0.0, drop: 0.0, free: 0.0 },
            // the crate's default (non-dyadic) and a slow collector (sums above 1: safety must not care)
            8 => PacingSpec { sleep_factor: 0.5, min_sleep, mark: 0.1, trace: 0.4, keep: 0.05, drop: 0.2, free: 0.3 },
            _ => dyadic_pacing(0.5, sleep, min_sleep),
        });
    }
    v
}

pub fn all_kinds() -> Vec<(KindChoice, u32)> {
    use KindChoice::*;
    vec![
        (Fixed(Kind::Node), 8),
        (Fixed(Kind::Field), 4),
        (Fixed(Kind::Raw), 4),
        (Fixed(Kind::Cell), 2),
        (Fixed(Kind::Once), 1),
        (Fixed(Kind::Leaf), 1),
        (Fixed(Kind::LeafLock), 1),
        (Fixed(Kind::LeafStatic), 1),
        (Fixed(Kind::SetHolder), 1),
        (Fixed(Kind::Bag), 2),
        (Fixed(Kind::ZLeaf), 1),
        (Fixed(Kind::CellP), 2),
        (SwhPod, 1),
        (Slice, 2),
        (Swh, 2),
        (Lay, 2),
    ]
}

fn is_node(k: &KindChoice) -> bool {
    *k == KindChoice::Fixed(Kind::Node)
}
fn choice_needs_trace(k: &KindChoice) -> bool {
    match k {
        KindChoice::Fixed(k) => k.needs_trace(),
        KindChoice::Slice | KindChoice::Swh | KindChoice::SwhPod => true,
        _ => false,
    }
}

/// The base swarm: every knob drawn per run.
pub fn base_swarm(r: &mut Rng) -> GenCfg {
    let size_class = r.below(3);
    let max_objs = [r.range(2, 6), r.range(8, 16), r.range(24, 48)][size_class];
    let events = r.range(10, 120);
    let mut w_op = [0u32; OW_N];
    w_op[OW_ALLOC_LINK] = 6;
    w_op[OW_GARBAGE] = 2;
    w_op[OW_RELINK] = 4;
    w_op[OW_UNLINK] = 4;
    w_op[OW_WEAK_LINK] = 3;
    w_op[OW_WEAK_UNLINK] = 1;
    w_op[OW_UPGRADE] = 3;
    w_op[OW_IS_DROPPED] = 1;
    w_op[OW_STASH] = 1;
    w_op[OW_PROBE] = 1;
    w_op[OW_BARRIER] = 1;
    w_op[OW_BURST] = 1;
    w_op[OW_PANIC] = 0;
    w_op[OW_ROOT_SET] = 2;
    // swarm: switch some op kinds off entirely in this run
    for k in [OW_WEAK_LINK, OW_UPGRADE, OW_STASH, OW_BARRIER, OW_BURST, OW_GARBAGE, OW_RELINK] {
        if r.chance(1, 4) {
            w_op[k] = 0;
        }
    }
    let mut kinds = all_kinds();
    for k in kinds.iter_mut() {
        if !is_node(&k.0) && r.chance(1, 3) {
            k.1 = 0;
        }
    }
    w_op[OW_BUILDER] = if r.chance(1, 2) { 1 } else { 0 };
    w_op[OW_CONVERT] = if r.chance(1, 3) { 1 } else { 0 };
    w_op[OW_ZST] = if r.chance(1, 3) { 1 } else { 0 };
    w_op[OW_HANDLE_IN] = if r.chance(1, 2) { 1 } else { 0 };
    w_op[OW_COPY] = if r.chance(1, 2) { 1 } else { 0 };
    let mut w_event = [0u32; EW_N];
    w_event[EW_MUTATE] = 10;
    w_event[EW_COLLECT] = 10;
    w_event[EW_HANDLE] = 2;
    w_event[EW_PACING] = if r.chance(1, 3) { 1 } else { 0 };
    w_event[EW_ADJUST] = if r.chance(1, 3) { 1 } else { 0 };
    let step = [StepPolicy::One, StepPolicy::Few, StepPolicy::Mixed, StepPolicy::Mixed, StepPolicy::Natural][r.below(5)];
    let pacings = pacing_family(r, false);
    GenCfg {
        events,
        max_objs,
        ops_lo: 1,
        ops_hi: r.range(2, 8),
        arenas: 1,
        max_handles: r.range(0, 8),
        w_event,
        w_cb: [4, 6, 1, 1, 0],
        w_op,
        kinds,
        conv_bias: [0, 0, 2, 6][r.below(4)],
        w_call: [6, 3, 2, 4, 2],
        w_marked: [2, 2, 3],
        step,
        pacings,
        burst_max: 64,
        steer: r.chance(3, 4),
        ctor_faults: false,
        ctor_ops: r.below(6),
        quarantine: true,
        recycle: false,
        resurrect_bias: 3,
        barrier_only_cb: 1,
        settle_after_adoption: false,
        bare_bias: [0, 2, 4][r.below(3)],
        static_bias: 0,
        rootless_bias: 0,
    }
}

/// Is this process part of a thorough-tier batch? (VERIF_TIER, exported by the driver to its workers)
pub fn thorough_tier() -> bool {
    static T: std::sync::OnceLock<bool> = std::sync::OnceLock::new();
    *T.get_or_init(|| std::env::var("VERIF_TIER").is_ok_and(|t| t == "thorough"))
}

/// Swarm configuration of run `seed` for property `prop`.
pub fn swarm(prop: &str, seed: u64) -> (GenCfg, Suffix, Shape) {
    let mut r = Rng::new(seed ^ 0x5A5A_5A5A);
    let mut c = base_swarm(&mut r);
    let mut suffix = Suffix::Settle;
    let mut shape = Shape::Free;
    match prop {
        "C01" => {}
        "C02" => {
            c.events = r.range(6, 40);
            shape = Shape::Prefix;
            c.w_op[OW_WEAK_LINK] = c.w_op[OW_WEAK_LINK].max(2);
            // fault kind (a third of the schedules): a destructor that unwinds while the sweep runs
            // it. What the crate then leaks by construction is exempt (§2.7); a weakly referenced
            // value whose destructor unwound stays an ordinary shell and has to be released like one
            c.w_event[EW_DROP_FAULT] = if r.chance(1, 3) { 2 } else { 0 };
        }
        "C03" => {
            c.w_op[OW_BURST] = 3;
            c.burst_max = 512;
            c.w_op[OW_UPGRADE] = c.w_op[OW_UPGRADE].max(2);
            c.w_cb = [3, 3, 2, 2, 0];
            c.step = StepPolicy::Mixed;
        }
        "C04" => {
            c.events = r.range(6, 40);
            shape = Shape::Prefix;
            suffix = Suffix::DropNow;
            // fault kind: a destructor that unwinds, also while the arena itself is being dropped
            // (armed by an event; whichever destructor comes n-th afterwards fires it)
            c.w_event[EW_DROP_FAULT] = if r.chance(1, 3) { 3 } else { 0 };
        }
        "C05" => {
            c.w_op[OW_WEAK_LINK] = 6;
            c.w_op[OW_UPGRADE] = 8;
            c.w_op[OW_IS_DROPPED] = 3;
            c.w_op[OW_WEAK_UNLINK] = 1;
            c.w_op[OW_UNLINK] = 5;
            c.step = if r.chance(2, 3) { StepPolicy::One } else { StepPolicy::Mixed };
            c.max_objs = c.max_objs.min(16);
            // fault kind: a destructor that unwinds while the sweep runs it (a third of the runs)
            c.w_event[EW_DROP_FAULT] = if r.chance(1, 3) { 2 } else { 0 };
        }
        "C06" => {
            c.w_op[OW_BARRIER] = 3;
            c.barrier_only_cb = 3;
            c.steer = true;
            c.w_cb = [3, 4, 2, 2, 0];
            c.w_op[OW_STASH] = 2;
            c.max_handles = c.max_handles.max(3);
            for k in c.kinds.iter_mut() {
                k.1 = k.1.max(2);
            }
            c.settle_after_adoption = r.chance(1, 2);
            c.step = if r.chance(1, 2) { StepPolicy::One } else { StepPolicy::Mixed };
        }
        "C07" => {
            c.w_call = [2, 5, 5, 2, 1];
            c.w_marked = [1, 1, 8];
            c.w_op[OW_WEAK_LINK] = 6;
            c.w_op[OW_UNLINK] = 5;
            c.resurrect_bias = [0, 3, 6][r.below(3)];
            c.max_objs = c.max_objs.min(16);
            // exactness needs runs with little mutation between wake and handout
            if r.chance(1, 2) {
                c.w_event[EW_MUTATE] = 3;
            }
        }
        "C08" => {
            c.w_call = [3, 3, 3, 3, 3];
            c.w_marked = [2, 3, 2];
            c.step = StepPolicy::Mixed;
            c.w_event[EW_ADJUST] = 3;
            c.w_event[EW_PACING] = 1;
            c.events = r.range(20, 120);
            c.max_objs = c.max_objs.min(16);
        }
        "C09" => {
            c.bare_bias = 6;
            c.step = StepPolicy::Natural;
            c.pacings = pacing_family(&mut r, true);
            c.pacings.truncate(1);
            c.w_event[EW_PACING] = 0;
            // artificial debt: positive only (the property excludes reductions), in a third of the runs
            c.w_event[EW_ADJUST] = if r.chance(1, 3) { 1 } else { 0 };
            c.w_op[OW_BURST] = 6;
            c.burst_max = 64;
            c.w_call = [4, 1, 0, 6, 2];
            c.w_marked = [4, 2, 0];
            c.events = r.range(30, 160);
            c.max_objs = [8, 24, 48][r.below(3)];
            // workload shape: all survivors / all garbage / mixed
            match r.below(3) {
                0 => {
                    c.w_op[OW_UNLINK] = 0;
                    c.w_op[OW_GARBAGE] = 0;
                    c.w_op[OW_BURST] = 1;
                }
                1 => {
                    c.w_op[OW_ALLOC_LINK] = 1;
                    c.w_op[OW_GARBAGE] = 6;
                }
                _ => {}
            }
        }
        "C10" => {
            c.w_op[OW_BARRIER] = 5;
            c.barrier_only_cb = 4;
            c.w_event[EW_ADJUST] = 3;
            c.w_event[EW_FAULT] = if r.chance(1, 2) { 2 } else { 0 };
            for k in c.kinds.iter_mut() {
                if !choice_needs_trace(&k.0) {
                    k.1 = 4;
                }
            }
        }
        "C11" if seed % 2 == 1 => {
            // fault-position enumeration over a fault-free schedule
            shape = Shape::FaultPositions;
            c.w_op[OW_BUILDER] = 1;
            c.events = r.range(6, 30);
            c.w_event[EW_FAULT] = 0;
            c.w_op[OW_PANIC] = 0;
            c.w_cb = [3, 3, 2, 2, 0];
            c.arenas = if r.chance(1, 3) { 2 } else { 1 };
            c.w_event[EW_NEW_ARENA] = if c.arenas > 1 { 2 } else { 0 };
            c.max_objs = c.max_objs.min(16);
        }
        "C11" => {
            c.w_op[OW_BUILDER] = 2;
            c.w_event[EW_FAULT] = 4;
            c.w_op[OW_PANIC] = 1;
            c.w_cb = [3, 3, 1, 1, 1];
            c.arenas = 2;
            c.w_event[EW_NEW_ARENA] = 1;
            c.ctor_faults = true;
            c.events = r.range(10, 60);
        }
        "C14" => {
            c.w_op[OW_STASH] = 5;
            c.w_op[OW_PROBE] = 4;
            c.w_op[OW_HANDLE_IN] = 3;
            c.w_event[EW_HANDLE] = 8;
            c.max_handles = r.range(3, 8);
            c.arenas = r.range(1, 3);
            c.w_event[EW_NEW_ARENA] = 1;
            c.w_event[EW_DROP_ARENA] = 1;
            for k in c.kinds.iter_mut() {
                if matches!(k.0, KindChoice::Fixed(Kind::SetHolder) | KindChoice::Fixed(Kind::Field)) {
                    k.1 = 4;
                }
            }
        }
        "C17" => {
            // layout-heavy: many leaves of the family, collections in between, arena dropped at the end
            c.kinds = vec![(KindChoice::Fixed(Kind::Node), 3), (KindChoice::LayClass(0), 6), (KindChoice::LayClass(1), 5), (KindChoice::LayClass(2), 5), (KindChoice::Slice, 1), (KindChoice::Swh, 1)];
            c.w_op[OW_ALLOC_LINK] = 8;
            c.w_op[OW_GARBAGE] = 3;
            c.w_op[OW_UNLINK] = 4;
            c.w_op[OW_WEAK_LINK] = 2;
            c.w_op[OW_BUILDER] = 1;
            c.w_op[OW_ZST] = 1;
            c.w_op[OW_CONVERT] = 1;
            c.w_op[OW_BURST] = 0;
            c.conv_bias = 4;
            c.max_objs = c.max_objs.min(24);
            c.quarantine = r.chance(3, 4);
        }
        "C18" => {
            c.w_op[OW_COPY] = 3;
            c.w_op[OW_BUILDER] = 10;
            c.w_op[OW_BURST] = 0;
            c.max_objs = c.max_objs.min(16);
            c.events = r.range(10, 60);
        }
        "C19" => {
            c.conv_bias = 12;
            c.w_op[OW_CONVERT] = 4;
            c.w_op[OW_ZST] = 4;
            c.w_op[OW_STASH] = 2;
            c.w_op[OW_RELINK] = 5;
            c.w_op[OW_UNLINK] = 5;
            c.kinds = vec![(KindChoice::Fixed(Kind::Node), 8), (KindChoice::Fixed(Kind::Field), 2), (KindChoice::Slice, 3), (KindChoice::Swh, 3), (KindChoice::Lay, 1), (KindChoice::LayClass(1), 3), (KindChoice::LayClass(2), 1)];
            c.max_handles = c.max_handles.max(2);
        }
        "C20" => {
            c.arenas = r.range(2, 3);
            c.w_event[EW_NEW_ARENA] = 3;
            c.w_event[EW_DROP_ARENA] = 1;
            c.w_op[OW_PROBE] = 2;
            c.w_op[OW_STASH] = 2;
            c.max_handles = c.max_handles.max(3);
            c.max_objs = c.max_objs.min(16);
        }
        _ => {}
    }
    // arenas whose root type holds no pointers (drawn late, like the seam mode below)
    let sshare = match prop {
        "C08" => 4,
        "C03" | "C09" | "C10" | "C02" | "C04" | "C18" | "C11" | "C20" => 12,
        _ => 0,
    };
    if sshare > 0 && r.chance(1, sshare) {
        c.static_bias = if c.arenas > 1 { 6 } else { 16 };
    }
    // arena-less contexts (`rootless_mutate`), a few per run at most
    if matches!(prop, "C03" | "C04" | "C17" | "C18" | "C19" | "C10" | "C11" | "C20") && r.chance(1, 4) {
        c.rootless_bias = 3;
    }
    // behaviour of the memory seam (a fault kind of its own): released addresses handed out
    // again at once. Drawn last so that the rest of the configuration does not depend on it.
    let share = match prop {
        "C14" | "C20" => 3,
        "C05" | "C19" | "C17" | "C04" => 4,
        "C01" | "C02" | "C07" | "C11" | "C18" => 8,
        _ => 0,
    };
    if share > 0 && r.chance(1, share) {
        c.recycle = true;
        c.quarantine = false;
    }
    // fault kind planted by the client itself: a RefLock write guard leaked by safe code
    // (`mem::forget(g.borrow_mut(mc))`). Every later trace of that lock unwinds; what the lock
    // holds stays reachable all the same.
    if matches!(prop, "C01" | "C07" | "C11") && r.chance(1, 8) {
        c.w_op[OW_LEAK] = 2;
        c.kinds.push((KindChoice::Fixed(Kind::Leaky), 6));
    }
    // thorough tier: one run in 24 is a long one over a large graph (queue and table growth, many
    // cycles in one history, pacing far from its start-up transient)
    if shape == Shape::Free && thorough_tier() && !cfg!(miri) && r.chance(1, 24) {
        c.events = (c.events * 4).min(480);
        c.max_objs = (c.max_objs * 3).min(144);
        c.max_handles = (c.max_handles * 3).min(24);
    }
    if cfg!(miri) {
        // under the interpreter a run costs seconds: short schedules over small graphs (the
        // allocator seam is off there, Miri itself watches every access)
        c.events = c.events.min(if shape == Shape::Free { 16 } else { 8 });
        c.max_objs = c.max_objs.min(8);
        c.ops_hi = c.ops_hi.min(4);
        c.burst_max = c.burst_max.min(3);
        c.max_handles = c.max_handles.min(3);
        c.ctor_ops = c.ctor_ops.min(2);
        // no destructor faults there: the crate leaks the block of a value whose destructor
        // unwound (by construction), which Miri's leak check would report at exit, and the
        // relaxations that go with that fault read the allocator seam, which is off under Miri
        c.w_event[EW_DROP_FAULT] = 0;
    }
    (c, suffix, shape)
}

/// Oracle ids a check for `prop` may raise (prefix match on "Cxx.").
pub fn owns_any<'v>(prop: &str, v: &'v crate::world::Violation) -> Option<&'v str> {
    if owns(prop, &v.oracle) {
        return Some(&v.oracle);
    }
    v.aliases.iter().find(|a| owns(prop, a)).map(|s| s.as_str())
}

pub fn owns(prop: &str, oracle: &str) -> bool {
    if oracle.starts_with(&format!("{prop}.")) {
        return true;
    }
    match prop {
        // a worker crash / harness-detected corruption counts for the memory-safety properties
        "C01" | "C03" | "C04" | "C05" | "C13" | "C17" => oracle == "crash",
        _ => false,
    }
}

/// Non-triviality antecedent of a run for `prop` (DESIGN 2.12), from the flags the run raised.
pub fn nontrivial(prop: &str, flags: &std::collections::BTreeSet<String>, o: &crate::world::Stats) -> bool {
    let f = |s: &str| flags.contains(s);
    match prop {
        "C01" => f("C01.mutation-mid-cycle") && f("C01.collect-mid-cycle"),
        "C02" => f("C02.cut-mid-cycle") || f("C02.garbage-with-edges") || f("C02.weakly-held-garbage"),
        "C03" => f("C03.entered-with-debt-mid-cycle") || f("C03.gray-pending"),
        "C04" => f("C04.drop-mid-cycle") || f("C04.drop-mixed"),
        "C05" => f("C05.nontrivial-query"),
        "C06" | "C13" => f("C06.adopt-into-marked"),
        "C07" => f("C07.queried-dead"),
        "C08" => o.cells.keys().filter(|k| k.starts_with("call|")).map(|k| k.split('|').nth(2).unwrap_or("").to_string()).collect::<std::collections::BTreeSet<_>>().len() >= 2,
        "C09" => f("C09.bound-checked") || f("C09.threshold-crossed"),
        "C10" => f("C10.barrier-during-marking") || f("C10.adjust-while-positive"),
        "C11" => (o.faults_fired > 0 || o.callback_panics > 0 || o.ctor_failures > 0) && f("C11.collect-after-fault"),
        "C14" => f("C14.handle-op-mid-cycle") || f("C14.foreign") || f("C14.slot-reuse"),
        "C17" => f("C17.exotic-survived-and-released"),
        "C18" => f("C18.abandoned") || f("C18.completed-and-collected"),
        "C19" => f("C19.converted-edge-survived-cycle"),
        "C20" => f("C20.two-mid-cycle"),
        _ => true,
    }
}
