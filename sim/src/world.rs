//! The simulated world and the executor: real arenas + shadow model + oracles.
//! `exec_event` performs one scheduled event against the real crate, updates the shadow op by
//! op, and evaluates every oracle it can. The first violation ends the run.

use std::collections::{BTreeMap, BTreeSet};
use std::panic::{AssertUnwindSafe, catch_unwind};

use gc_arena::arena::CollectionPhase as Phase;
use gc_arena::metrics::Metrics;

use crate::ops::*;
use crate::payload::*;
use crate::rng::mix;
use crate::seam::{self, EvKind};
use crate::shadow::*;
use crate::tok::{self, Injected};

#[derive(Clone, Debug, serde::Serialize, serde::Deserialize)]
pub struct Violation {
    pub oracle: String,
    pub event: usize,
    pub detail: String,
    /// other oracle ids the same event violates (a reachable value lost because a barrier path,
    /// an upgrade, a resurrection or a stash did not protect it is also C06's, C05's, C07's, C14's)
    #[serde(default)]
    pub aliases: Vec<String>,
}

pub enum ArenaBox {
    A(ArenaA),
    B(ArenaB),
    /// pointer-free root
    S(ArenaS),
}

/// Root-agnostic use of the arena (collection calls, metrics, phase).
macro_rules! with_arena {
    ($slot:expr, $a:ident => $e:expr) => {
        match &mut $slot {
            ArenaBox::A($a) => $e,
            ArenaBox::B($a) => $e,
            ArenaBox::S($a) => $e,
        }
    };
}
/// Use of the arena by something that looks at the root: `$root` is bound to a `&RootBody` /
/// `&mut RootBody` of the real root, or - for a pointer-free root - evaluated with `$rs`.
macro_rules! with_arena_root {
    ($slot:expr, $a:ident => $e:expr, $s:ident => $es:expr) => {
        match &mut $slot {
            ArenaBox::A($a) => $e,
            ArenaBox::B($a) => $e,
            ArenaBox::S($s) => $es,
        }
    };
}
pub(crate) use with_arena_root;
pub(crate) use with_arena;

pub struct ArenaSlot {
    pub arena: ArenaBox,
    pub metrics: Metrics,
}

pub enum RealHandle {
    Node(NodeHandle),
    Field(FieldHandle),
}

impl RealHandle {
    pub fn clone_handle(&self) -> RealHandle {
        match self {
            RealHandle::Node(h) => RealHandle::Node(h.clone()),
            RealHandle::Field(h) => RealHandle::Field(h.clone()),
        }
    }
}

pub struct HandleState {
    pub real: RealHandle,
    pub group: u32,
    pub arena: Aid,
    pub obj: Id,
}

/// Per-arena run-time bookkeeping that is not part of the heap graph.
#[derive(Clone)]
pub struct ArenaRt {
    /// the client leaked a RefLock write guard in this arena: marking may never finish again (every
    /// trace of that lock unwinds), so the settling suffix is skipped for it
    pub leaked_guard: bool,
    /// no reachability-changing op since the call that took the arena out of Sleeping
    pub clean_since_wake: bool,
    /// a resurrection of a dead object happened and no MarkedArena was handed out since
    pub expect_marking: bool,
    /// Metrics handle kept after the arena is gone (C04.count-after-drop)
    pub retained: Option<Metrics>,
    /// C09 bookkeeping: Some((H, allocations since)) while a debt-driven wake was observed and
    /// nothing voided it
    pub wake: Option<(usize, usize)>,
    /// C09: a negative artificial adjustment was made in this cycle (bound does not apply)
    pub neg_adjust: bool,
    /// C09 sleep bookkeeping: Some((survivors, allocations since the cycle ended)) when the last
    /// cycle provably carried no debt over
    pub sleep: Option<(usize, usize)>,
    /// the threshold W recorded when `sleep` was set
    pub sleep_threshold: f64,
    /// pacing changed since the cycle began (C09 oracles void)
    pub pacing_changed: bool,
    /// Gc blocks of this arena at the start of the running sweep / freed during it
    pub cycle_allocs_total: usize,
    /// allocations of Gc objects since the arena was created
    pub allocs: usize,
    /// value of `allocs` when the running sweep began (allocations happen in callbacks only, so
    /// the count at the end of the collection call that entered Sweeping is the count at the
    /// sweep's start); None outside a sweep or when a cycle boundary may have been crossed unseen
    pub allocs_at_sweep_start: Option<usize>,
    /// objects resurrected etc. for C07.dead-set: Some(set of ids expected to be destructed by
    /// the running cycle) while nothing was mutated after the finalize callback
    pub dead_set: Option<BTreeSet<Id>>,
    /// the dead-at-handout candidates `dead_set` was computed from
    pub dead_set_base: BTreeSet<Id>,
    /// a trace fault fired in this arena since it was last observed Sleeping
    pub faulted_cycle: bool,
    /// largest magnitude ever passed to adjust_debt: the rounding scale of the hidden debits
    pub debt_scale: f64,
    /// targets stored after a successful upgrade since the arena was last observed Sleeping
    pub up_stored: BTreeSet<Id>,
    /// children adopted while marking was in progress, in the running cycle / the one before
    pub adopted_cur: BTreeSet<Id>,
    pub adopted_prev: BTreeSet<Id>,
    /// weak targets adopted while marking was in progress, in the running cycle / the one before
    pub adopted_weak_cur: BTreeSet<Id>,
    pub adopted_weak_prev: BTreeSet<Id>,
    /// layout-family leaves with an exotic layout that have survived a full cycle (C17 evidence)
    pub exotic_survivors: BTreeSet<Id>,
}

impl ArenaRt {
    pub fn sleep_w(&self) -> Option<(f64, usize)> {
        self.sleep.map(|(_, n)| (self.sleep_threshold, n))
    }
    pub fn pacing_changed_since_last_cycle_end(&self) -> bool {
        false
    }
}

impl Default for ArenaRt {
    fn default() -> Self {
        ArenaRt {
            clean_since_wake: false,
            expect_marking: false,
            retained: None,
            wake: None,
            neg_adjust: false,
            sleep: None,
            sleep_threshold: 0.0,
            pacing_changed: false,
            cycle_allocs_total: 0,
            allocs: 0,
            allocs_at_sweep_start: None,
            dead_set: None,
            dead_set_base: BTreeSet::new(),
            faulted_cycle: false,
            leaked_guard: false,
            debt_scale: 0.0,
            up_stored: BTreeSet::new(),
            adopted_cur: BTreeSet::new(),
            adopted_prev: BTreeSet::new(),
            exotic_survivors: BTreeSet::new(),
            adopted_weak_cur: BTreeSet::new(),
            adopted_weak_prev: BTreeSet::new(),
        }
    }
}

/// Colour information read through the verification hook (coverage and generation steering
/// only; never an oracle input, except for attributing the C10 known finding).
#[derive(Clone, Copy, Debug, PartialEq, Eq)]
pub struct Col {
    pub color: u8,
    pub live: bool,
    pub pending: bool,
}

#[derive(Default, Clone, Debug, serde::Serialize, serde::Deserialize)]
pub struct Stats {
    pub events: u64,
    pub ops: u64,
    pub ops_skipped: u64,
    pub callbacks: u64,
    pub collect_calls: u64,
    pub allocs: u64,
    pub drops_seen: u64,
    pub frees_seen: u64,
    pub faults_fired: u64,
    pub callback_panics: u64,
    pub ctor_failures: u64,
    pub arena_drops: u64,
    pub marked_arenas: u64,
    pub finalize_cbs: u64,
    pub upgrades: u64,
    pub upgrades_refused_live: u64,
    pub resurrections: u64,
    pub isdead_queries: u64,
    pub isdead_exact: u64,
    pub probes: u64,
    pub foreign_probes: u64,
    pub stashes: u64,
    pub handle_ops: u64,
    pub known_c10_fw: u64,
    pub drop_faults: u64,
    pub trace_ticks: u64,
    /// tracked allocations that were handed a just-released address (recycle mode of the seam)
    #[serde(default)]
    pub addr_reuses: u64,
    /// coverage cells: name -> hits
    pub cells: BTreeMap<String, u64>,
    /// non-triviality flags raised by this run (by property antecedent, DESIGN 2.12)
    pub flags: BTreeSet<String>,
    /// hashes of abstract collector states visited / transitions taken (hook)
    #[serde(skip)]
    pub states: BTreeSet<u64>,
    #[serde(skip)]
    pub transitions: BTreeSet<u64>,
}

impl Stats {
    pub fn cell(&mut self, name: String) {
        *self.cells.entry(name).or_insert(0) += 1;
    }
    pub fn flag(&mut self, name: &str) {
        if !self.flags.contains(name) {
            self.flags.insert(name.to_string());
        }
    }
}

#[derive(Clone, Debug)]
pub struct ExecCfg {
    /// keep a human-readable event log
    pub log: bool,
    /// take hook snapshots for coverage / state hashing
    pub coverage: bool,
    /// run on the "plain" profile (no overflow checks): some oracles read differently
    pub plain_profile: bool,
}

impl Default for ExecCfg {
    fn default() -> Self {
        ExecCfg { log: false, coverage: true, plain_profile: false }
    }
}

pub struct World {
    pub cfg: ExecCfg,
    pub sh: Shadow,
    pub arenas: Vec<Option<ArenaSlot>>,
    pub rt: Vec<ArenaRt>,
    pub handles: BTreeMap<Hid, HandleState>,
    pub viol: Option<Violation>,
    pub pending: Option<Violation>,
    /// when set, every event and every op is written here *before* it is executed, so that the
    /// trace of a run that crashes the process can be recovered (driver: crash replay files)
    pub stream: Option<std::fs::File>,
    pub ev_index: usize,
    pub stats: Stats,
    /// abstract signature of the run (ids and addresses erased)
    pub sig: u64,
    /// digest of the full event log
    pub digest: u64,
    pub log: Vec<String>,
    pub drop_cursor: usize,
    pub addr2id: BTreeMap<usize, Id>,
    /// tokens that are parts of an object with several tokens
    pub tok2obj: BTreeMap<Id, Id>,
    /// completed builder objects whose elements are zero-sized tokens: object id -> element count
    pub z_pending: BTreeMap<Id, u64>,
    /// last abstract collector state hash per arena (for transition counting)
    pub last_state: Vec<u64>,
    /// known findings met in this run: (property, what)
    pub known: BTreeSet<(String, String)>,
    /// the run met a condition that makes its cycle-scoped bookkeeping meaningless
    pub aborted_foreign: bool,
    /// C09: largest A / bound ratio seen (tightness of the liveness bound)
    pub c09_max_ratio: f64,
}

pub fn phase_code(p: Phase) -> u8 {
    match p {
        Phase::Sleeping => 0,
        Phase::Marking => 1,
        Phase::Marked => 2,
        Phase::Sweeping => 3,
    }
}
pub fn phase_name(p: Phase) -> &'static str {
    match p {
        Phase::Sleeping => "Sleeping",
        Phase::Marking => "Marking",
        Phase::Marked => "Marked",
        Phase::Sweeping => "Sweeping",
    }
}

pub fn panic_message(p: &Box<dyn std::any::Any + Send>) -> String {
    if let Some(s) = p.downcast_ref::<&str>() {
        s.to_string()
    } else if let Some(s) = p.downcast_ref::<String>() {
        s.clone()
    } else {
        "<non-string panic payload>".to_string()
    }
}

/// Outcome of a guarded call into the crate.
pub enum Caught<T> {
    Ok(T),
    /// an injected fault unwound out of the call
    Injected,
    /// some other panic escaped from the crate
    Unexpected(String),
    /// the harness stopped the run from inside a destructor (a protected value was being destructed)
    Stopped,
}

pub fn guarded<T>(f: impl FnOnce() -> T) -> Caught<T> {
    match catch_unwind(AssertUnwindSafe(f)) {
        Ok(v) => Caught::Ok(v),
        Err(p) => {
            let _pz = seam::pause();
            if p.downcast_ref::<Injected>().is_some() {
                Caught::Injected
            } else if p.downcast_ref::<crate::tok::StopRun>().is_some() {
                Caught::Stopped
            } else {
                let msg = panic_message(&p);
                if crate::tok::is_leaked_guard_panic(&msg) {
                    // the client leaked a RefLock write guard: tracing that lock unwinds with a
                    // BorrowError, exactly like an injected trace fault (one that never goes away)
                    crate::tok::note_fault_fired();
                    Caught::Injected
                } else {
                    Caught::Unexpected(msg)
                }
            }
        }
    }
}

impl World {
    pub fn new(cfg: ExecCfg) -> World {
        World {
            cfg,
            sh: Shadow::default(),
            arenas: vec![],
            rt: vec![],
            handles: BTreeMap::new(),
            viol: None,
            pending: None,
            stream: None,
            ev_index: 0,
            stats: Stats::default(),
            sig: 0x5157,
            digest: 0xD16E57,
            log: vec![],
            drop_cursor: 0,
            addr2id: BTreeMap::new(),
            tok2obj: BTreeMap::new(),
            z_pending: BTreeMap::new(),
            last_state: vec![],
            known: BTreeSet::new(),
            aborted_foreign: false,
            c09_max_ratio: 0.0,
        }
    }

    pub fn violate(&mut self, oracle: &str, detail: String) {
        if self.viol.is_none() {
            self.viol = Some(Violation { oracle: oracle.to_string(), event: self.ev_index, detail, aliases: vec![] });
        }
    }
    pub fn ok(&self) -> bool {
        self.viol.is_none()
    }

    pub fn stream_line(&mut self, tag: char, json: String) {
        if let Some(f) = self.stream.as_mut() {
            use std::io::Write;
            let _p = seam::pause();
            let _ = writeln!(f, "{tag} {json}");
        }
    }

    /// A violation that must not stop the event yet: what follows in the same event may show a
    /// more specific one (a MarkedArena handed out too early is C08's, but what the finalizer
    /// then sees is C07's). Promoted at the end of the event.
    pub fn violate_deferred(&mut self, oracle: &str, detail: String) {
        if self.viol.is_none() && self.pending.is_none() {
            self.pending = Some(Violation { oracle: oracle.to_string(), event: self.ev_index, detail, aliases: vec![] });
        }
    }
    pub fn promote_pending(&mut self) {
        if let Some(p) = self.pending.take() {
            match self.viol.as_mut() {
                None => self.viol = Some(p),
                Some(v) => {
                    if v.oracle != p.oracle && !v.aliases.contains(&p.oracle) {
                        v.aliases.push(p.oracle);
                    }
                }
            }
        }
    }
    /// Record a violation with alternative oracle ids.
    pub fn violate_with(&mut self, oracle: &str, aliases: &[&str], detail: String) {
        if self.viol.is_none() {
            self.viol = Some(Violation { oracle: oracle.to_string(), event: self.ev_index, detail, aliases: aliases.iter().map(|s| s.to_string()).collect() });
        }
    }

    /// A strongly reachable value was destructed or released: record it, together with the more
    /// specific promises it breaks (why the value was reachable).
    pub fn violate_lost(&mut self, oracle: &str, oid: Id, detail: String) {
        if self.viol.is_some() {
            return;
        }
        let mut aliases = vec![];
        if let Some(o) = self.sh.objs.get(&oid) {
            let a = o.arena;
            if self.sh.arena_alive(a) {
                let ar = self.sh.arena(a).clone();
                // reachable only because it was resurrected this cycle?
                let mut without_res = self.sh.clone_arena_without_resurrected(a);
                if !without_res.reach(a).contains(&oid) {
                    aliases.push("C07.resurrected-lost".to_string());
                }
                // reachable only through a stash slot?
                without_res = self.sh.clone_arena_without_stash(a);
                if !without_res.reach(a).contains(&oid) {
                    aliases.push("C14.stashed-lost".to_string());
                }
                let _ = ar;
                let rt = &self.rt[a as usize];
                let in_closure = |set: &BTreeSet<Id>| set.iter().any(|r| self.sh.closure(*r).contains(&oid));
                if in_closure(&rt.up_stored) {
                    aliases.push("C05.stored-lost".to_string());
                }
                if in_closure(&rt.adopted_cur) || in_closure(&rt.adopted_prev) {
                    aliases.push("C06.adopted-lost".to_string());
                }
            }
            // reachable only through an object that a slice / slice-with-header builder completed?
            // Then "the object is subsequently collected like any other" (C18) did not hold for
            // that object: it holds pointers and was not treated as a holder of pointers
            if self.sh.arena_alive(a) {
                let without = self.sh.clone_arena_without_edges_of(a, |k| matches!(k, Kind::Slice { .. } | Kind::Swh { .. } | Kind::CopySlice { .. } | Kind::CopySwh { .. }));
                if !without.reach(a).contains(&oid) {
                    aliases.push("C18.completed-holder".to_string());
                }
            }
            // the shared object of a reachable ZstCache: every Gc<T> the cache handed out is this
            // very object, so losing it breaks "keeping either alive keeps the value alive"
            if o.kind == Kind::ZstShared {
                aliases.push("C19.zst-lost".to_string());
            }
        }
        self.viol = Some(Violation { oracle: oracle.to_string(), event: self.ev_index, detail, aliases });
    }

    pub fn note(&mut self, line: impl FnOnce() -> String) {
        if self.cfg.log {
            let l = line();
            self.log.push(l);
        }
    }
    pub fn dig(&mut self, x: u64) {
        self.digest = mix(self.digest, x);
    }
    pub fn sigmix(&mut self, x: u64) {
        self.sig = mix(self.sig, x);
    }

    pub fn phase(&self, a: Aid) -> Phase {
        match &self.arenas[a as usize].as_ref().unwrap().arena {
            ArenaBox::A(x) => x.collection_phase(),
            ArenaBox::B(x) => x.collection_phase(),
            ArenaBox::S(x) => x.collection_phase(),
        }
    }
    pub fn metrics(&self, a: Aid) -> &Metrics {
        &self.arenas[a as usize].as_ref().unwrap().metrics
    }
    pub fn live_arenas(&self) -> Vec<Aid> {
        (0..self.arenas.len()).filter(|i| self.arenas[*i].is_some()).map(|i| i as Aid).collect()
    }

    // --------------------------------------------------------------------------------------------
    // hook-based colour view (coverage / steering)

    pub fn snapshot(&self, a: Aid) -> Option<gc_arena::VerifSnapshot> {
        let slot = self.arenas.get(a as usize)?.as_ref()?;
        Some(match &slot.arena {
            ArenaBox::A(x) => x.verif_snapshot(),
            ArenaBox::B(x) => x.verif_snapshot(),
            ArenaBox::S(x) => x.verif_snapshot(),
        })
    }

    pub fn colors_of(&self, snap: &gc_arena::VerifSnapshot) -> BTreeMap<Id, Col> {
        let mut m = BTreeMap::new();
        for o in &snap.objects {
            if let Some(id) = self.addr2id.get(&o.addr) {
                m.insert(*id, Col { color: o.color, live: o.live, pending: o.pending_sweep });
            }
        }
        m
    }

    /// Hash of the abstract collector state (ids and addresses erased; list order kept).
    pub fn state_hash(&self, a: Aid, snap: &gc_arena::VerifSnapshot) -> u64 {
        let mut h = mix(0xABCD, snap.phase as u64 * 2 + snap.root_needs_trace as u64);
        let reach = self.sh.reach(a);
        for o in &snap.objects {
            let id = self.addr2id.get(&o.addr).copied();
            let (kind, reachable) = match id.and_then(|i| self.sh.objs.get(&i).map(|ob| (i, ob))) {
                Some((i, ob)) => (crate::rng::fnv(format!("{:?}", ob.kind).as_bytes()) % 1024, reach.contains(&i)),
                None => (99, false),
            };
            h = mix(h, o.color as u64 | (o.live as u64) << 2 | (o.needs_trace as u64) << 3 | (o.pending_sweep as u64) << 4 | (reachable as u64) << 5 | kind << 6);
        }
        h = mix(h, snap.gray.len() as u64);
        h = mix(h, snap.gray_again.len() as u64);
        h
    }

    pub fn observe_state(&mut self, a: Aid, label: u64) {
        if !self.cfg.coverage {
            return;
        }
        let Some(snap) = self.snapshot(a) else { return };
        let h = self.state_hash(a, &snap);
        while self.last_state.len() <= a as usize {
            self.last_state.push(0);
        }
        let prev = self.last_state[a as usize];
        self.stats.states.insert(h);
        self.stats.transitions.insert(mix(mix(prev, label), h));
        self.last_state[a as usize] = h;
    }

    // --------------------------------------------------------------------------------------------
    // processing of destructor and allocator events after a call into the crate

    /// Judge every destructor and allocator event recorded since the last call. Each event
    /// carries the harness context it happened in: inside a callback-taking call, inside a
    /// collection method (then `protect` / `weak_protect` are what C01 / C05 shield), inside the
    /// drop of an arena (everything of that arena goes), or outside any of these.
    pub fn process_events(&mut self, protect: &BTreeSet<Id>, weak_protect: &BTreeSet<Id>) {
        for (t, ctx) in tok::take_garbage_drops() {
            let (o, al): (&str, &[&str]) = if ctx == seam::CTX_BUILDER || ctx == seam::CTX_CALLBACK { ("C18.parts", &["C04.twice"]) } else { ("C04.twice", &["C18.parts"]) };
            self.violate_with(o, al, format!("a destructor ran on memory that holds no value (it reads token id {t:#x}: never initialised, or already released)"));
        }
        // destructors that unwound (injected fault): remember which values
        for t in tok::take_drop_faulted() {
            if let Some(oid) = self.tok_owner(t) {
                // The crate leaks, by construction, the block of a value whose destructor unwound
                // while the sweep was releasing it (unlinked, never deallocated) or while the
                // arena was being dropped. Not so for a value that is weakly referenced from a
                // reachable holder: the sweep keeps that block as a shell, with its bookkeeping
                // done before the destructor runs - it stays an ordinary shell.
                let shell_case = weak_protect.contains(&oid);
                if let Some(o) = self.sh.objs.get_mut(&oid) {
                    if !shell_case {
                        o.drop_faulted = true;
                    }
                }
                if shell_case {
                    self.stats.flag("C05.destructor-fault-in-shell");
                }
                self.stats.drop_faults += 1;
                self.stats.flag("C05.destructor-fault");
            }
        }
        let drops = tok::drop_events_since(self.drop_cursor);
        self.drop_cursor = tok::drop_log_len();
        let mut sigd = 0u64;
        for d in &drops {
            self.stats.drops_seen += 1;
            self.dig(0xD0 ^ (d.id as u64) << 8);
            sigd += 1;
            // which object does this token belong to?
            let owner = self.tok_owner(d.id);
            let Some(oid) = owner else {
                // a token that belongs to no linked object (builder part, temporary): not an arena value
                continue;
            };
            let oarena = self.sh.objs[&oid].arena;
            if tok::drops(d.id) > 1 {
                self.violate("C04.twice", format!("value {oid} (token {}) destructed {} times", d.id, tok::drops(d.id)));
            }
            if d.ctx_arena != oarena as u16 {
                self.violate("C20.frame", format!("value {oid} of arena {oarena} destructed by an event on arena {}", d.ctx_arena));
            }
            match d.ctx {
                seam::CTX_CALLBACK | seam::CTX_BUILDER => self.violate("C03.drop-in-callback", format!("value {oid} destructed while a callback of arena {oarena} was running")),
                seam::CTX_COLLECT => {
                    if protect.contains(&oid) {
                        self.violate_lost("C01.drop-reachable", oid, format!("value {oid} destructed while strongly reachable"));
                    }
                }
                seam::CTX_ARENA_DROP => {}
                _ => self.violate("C03.drop-outside", format!("value {oid} destructed outside any collection method or arena drop")),
            }
            if let Some(o) = self.sh.objs.get_mut(&oid) {
                if o.toks.iter().all(|t| tok::drops(*t) >= 1) {
                    o.destructed = true;
                }
            }
        }
        self.sigmix(0xD0 + sigd.min(3));

        let evs = seam::drain_events();
        let mut sigf = 0u64;
        for e in &evs {
            if e.kind == EvKind::BadPointer {
                self.violate_with("C04.layout", &["C17.layout"], format!("a pointer the allocator never handed out was released (as size {}, align {}) from inside the crate: the block it belongs to is never returned", e.size, e.align));
                continue;
            }
            let b = seam::block(e.block);
            let owner = if b.owner != 0 { Some(b.owner - 1) } else { None };
            match e.kind {
                EvKind::Free => {
                    let Some(oid) = owner else { continue };
                    self.stats.frees_seen += 1;
                    sigf += 1;
                    self.dig(0xF0 ^ (oid as u64) << 8);
                    let Some(o) = self.sh.objs.get(&oid).cloned() else { continue };
                    if e.ctx_arena != o.arena as u16 {
                        self.violate("C20.frame", format!("Gc block of {oid} (arena {}) released by an event on arena {}", o.arena, e.ctx_arena));
                    }
                    match e.ctx {
                        seam::CTX_CALLBACK | seam::CTX_BUILDER => self.violate("C03.free-in-callback", format!("Gc block of {oid} released while a callback of arena {} was running", o.arena)),
                        seam::CTX_COLLECT => {
                            if protect.contains(&oid) {
                                self.violate_lost("C01.free-reachable", oid, format!("Gc block of {oid} released while strongly reachable"));
                            }
                            if weak_protect.contains(&oid) {
                                // a weak pointer adopted through a barrier path while marking was in
                                // progress must keep its target queryable (C06)
                                let rt = &self.rt[o.arena as usize];
                                let adopted = rt.adopted_weak_cur.contains(&oid) || rt.adopted_weak_prev.contains(&oid);
                                let aliases: &[&str] = if adopted { &["C06.weak-unqueryable"] } else { &[] };
                                self.violate_with("C05.shell-released", aliases, format!("block of {oid} released while a reachable weak pointer still refers to it"));
                            }
                        }
                        seam::CTX_ARENA_DROP => {}
                        _ => self.violate("C03.free-outside", format!("Gc block of {oid} released outside any collection method or arena drop")),
                    }
                    if matches!(o.kind, Kind::Built { .. }) && e.ctx == seam::CTX_COLLECT {
                        self.stats.flag("C18.completed-and-collected");
                    }
                    if self.rt.get(o.arena as usize).is_some_and(|r| r.exotic_survivors.contains(&oid)) {
                        self.stats.flag("C17.exotic-survived-and-released");
                    }
                    let om = self.sh.objs.get_mut(&oid).unwrap();
                    om.released = true;
                    if om.toks.is_empty() {
                        om.destructed = true;
                    } else if om.toks.iter().any(|t| tok::drops(*t) == 0) {
                        self.violate("C04.never", format!("block of {oid} released but its value was never destructed"));
                    }
                }
                EvKind::DoubleFree => {
                    self.violate("C04.double-free", format!("block of {:?} released twice", owner));
                }
                EvKind::BadPointer => {}
                EvKind::BadLayout => {
                    self.violate_with("C04.layout", &["C17.layout"], format!("block of {:?} requested as (size {}, align {}) released as (size {}, align {})", owner, b.size, b.align, e.size, e.align));
                }
                EvKind::RedZoneLo | EvKind::RedZoneHi => {
                    self.violate("C17.redzone", format!("red zone of block of {:?} overwritten ({:?})", owner, e.kind));
                }
            }
        }
        self.sigmix(0xF0 + sigf.min(3));
        // zero-sized tokens have no identity: conservation of their counts. Never more destructed
        // than constructed; whatever is constructed and not yet destructed lives in a completed
        // object whose block is still allocated.
        if !self.z_pending.is_empty() || tok::z_counts().0 != 0 {
            let (made, dropped) = tok::z_counts();
            if dropped > made {
                self.violate_with("C04.twice", &["C18.parts"], format!("{dropped} zero-sized slice elements have been destructed but only {made} were ever constructed"));
            } else {
                let held: u64 = self.z_pending.iter().filter(|(i, _)| self.sh.objs.get(i).is_some_and(|o| !o.released)).map(|(_, n)| *n).sum();
                if made - dropped > held {
                    self.violate("C04.never", format!("{} zero-sized slice elements were constructed and never destructed although only {held} of them are in objects that still exist", made - dropped));
                }
            }
        }
    }

    pub fn tok_owner(&self, t: Id) -> Option<Id> {
        if let Some(o) = self.sh.objs.get(&t) {
            if o.toks.contains(&t) {
                return Some(t);
            }
        }
        self.tok2obj.get(&t).copied()
    }

    /// The sets the C01 / C05 oracles protect right now.
    pub fn protection(&self, a: Aid) -> (BTreeSet<Id>, BTreeSet<Id>) {
        let reach = self.sh.reach(a);
        let weak = self.sh.weak_targets(a, &reach);
        (reach, weak)
    }

    // --------------------------------------------------------------------------------------------
    // metrics oracles evaluated after every event (C10)

    pub fn check_metrics(&mut self, a: Aid) {
        if !self.ok() || self.arenas[a as usize].is_none() {
            return;
        }
        let m = self.metrics(a).clone();
        let count = m.total_gc_count();
        if seam::active() {
            let live = seam::live_gc_blocks(a as u16);
            if count as i64 != live {
                self.violate("C10.count", format!("arena {a}: total_gc_count {count} but {live} Gc blocks are live at the allocator"));
            }
        }
        let d = m.allocation_debt();
        if !(d.is_finite() && d >= 0.0) {
            self.violate("C10.range", format!("arena {a}: allocation_debt {d}"));
        }
        if count == 0 && d != 0.0 {
            self.violate("C10.empty", format!("arena {a}: empty arena reports debt {d}"));
        }
        self.dig(count as u64 ^ d.to_bits().rotate_left(17));
    }

    // --------------------------------------------------------------------------------------------
    // plain events

    pub fn ev_set_pacing(&mut self, a: Aid, p: PacingSpec) {
        if !self.sh.arena_alive(a) {
            return;
        }
        let g = seam::enter(seam::CTX_OUTSIDE, a as u16);
        {
            let _t = seam::track();
            self.metrics(a).set_pacing(p.to_pacing());
        }
        drop(g);
        self.sh.arena_mut(a).pacing = p;
        let rt = &mut self.rt[a as usize];
        rt.pacing_changed = true;
        rt.wake = None;
        rt.sleep = None;
        let empty = BTreeSet::new();
        self.process_events(&empty, &empty);
    }

    pub fn ev_adjust_debt(&mut self, a: Aid, x: f64) {
        if !self.sh.arena_alive(a) {
            return;
        }
        let m = self.metrics(a).clone();
        let before = m.allocation_debt();
        m.adjust_debt(x);
        let after = m.allocation_debt();
        // exact for dyadic pacings; a non-dyadic factor makes the debt itself a rounded quantity
        let p = self.sh.arena(a).pacing;
        let dyadic = [p.mark, p.trace, p.keep, p.drop, p.free].iter().all(|f| (f * 1024.0).fract() == 0.0);
        // the hidden debits may be far larger than the visible debt: their magnitude sets the ulp
        let hidden = self.rt[a as usize].debt_scale.max(self.rt[a as usize].allocs as f64);
        let scale = before.abs().max(x.abs()).max(after.abs()).max(hidden);
        let tol = if dyadic { 16.0 * f64::EPSILON * scale } else { 1e-9 * (1.0 + scale) };
        self.rt[a as usize].debt_scale = self.rt[a as usize].debt_scale.max(x.abs());
        if before > 0.0 && before + x > 0.0 && (after - (before + x)).abs() > tol {
            self.violate("C10.adjust", format!("arena {a}: debt {before} + adjust_debt({x}) reads {after}"));
        }
        if before > 0.0 {
            self.stats.flag("C10.adjust-while-positive");
        }
        let rt = &mut self.rt[a as usize];
        if x < 0.0 {
            rt.neg_adjust = true;
            rt.wake = None;
        }
        rt.sleep = None;
        self.dig(after.to_bits());
    }

    pub fn ev_handle(&mut self, h: Hid, op: HandleOp) {
        if !self.handles.contains_key(&h) {
            return;
        }
        self.stats.handle_ops += 1;
        let arena = self.handles[&h].arena;
        let arena_alive = self.sh.arena_alive(arena);
        if arena_alive && self.phase(arena) != Phase::Sleeping {
            self.stats.flag("C14.handle-op-mid-cycle");
        }
        let g = seam::enter(seam::CTX_HANDLE, arena as u16);
        match op {
            HandleOp::Clone { new } => {
                if self.handles.contains_key(&new) {
                    return;
                }
                let hs = &self.handles[&h];
                let r = guarded(|| {
                    let _t = seam::track();
                    hs.real.clone_handle()
                });
                match r {
                    Caught::Ok(real) => {
                        let (group, obj) = (hs.group, hs.obj);
                        self.handles.insert(new, HandleState { real, group, arena, obj });
                        self.sh.handles.insert(new, group);
                        self.sh.groups.get_mut(&group).unwrap().count += 1;
                        self.sh.next_hid = self.sh.next_hid.max(new + 1);
                    }
                    Caught::Injected | Caught::Stopped => {}
                    Caught::Unexpected(m) => {
                        let o = if arena_alive { "C14.panic" } else { "C14.afterlife" };
                        self.violate(o, format!("DynamicRoot::clone panicked: {m}"));
                    }
                }
            }
            HandleOp::Drop => {
                let hs = self.handles.remove(&h).unwrap();
                let r = guarded(|| {
                    let _t = seam::track();
                    drop(hs.real)
                });
                if let Caught::Unexpected(m) = r {
                    let o = if arena_alive { "C14.panic" } else { "C14.afterlife" };
                    self.violate(o, format!("DynamicRoot::drop panicked: {m}"));
                }
                self.sh.handles.remove(&h);
                self.sh.dec_group(hs.group);
                if arena_alive {
                    self.rt[arena as usize].clean_since_wake = false;
                    self.rt[arena as usize].dead_set = None;
                }
            }
        }
        drop(g);
        let empty = BTreeSet::new();
        self.process_events(&empty, &empty);
        self.sigmix(0x4A + matches!(op, HandleOp::Drop) as u64);
    }
}
