//! The collector party: collection calls of controlled size, MarkedArena actions, run suffixes,
//! and the event dispatcher.

use std::collections::BTreeSet;

use gc_arena::arena::CollectionPhase as Phase;

use crate::cb::*;
use crate::events::allowed_post;
use crate::ops::*;
use crate::seam;
use crate::tok;
use crate::world::*;

/// Marking work visible in a hook snapshot: objects that carry a mark of this cycle, and objects
/// that are fully traced (an upper bound on the trace credits earned).
fn mark_work(s: &gc_arena::VerifSnapshot) -> (usize, usize) {
    let marked = s.objects.iter().filter(|o| o.color != 0).count();
    // every black object: one that needs no tracing may still have been queued and "traced" (a
    // resurrected leaf is), so counting those too keeps the bound on the safe side
    let traced = s.objects.iter().filter(|o| o.color == 3).count();
    (marked, traced)
}

impl World {
    /// Step-size control (DESIGN 2.8): make the debt exactly `target` through the public API.
    pub fn set_debt(&mut self, a: Aid, target: f64) {
        let m = self.metrics(a).clone();
        if m.total_gc_count() == 0 {
            return;
        }
        if !(m.allocation_debt() > 0.0) {
            m.adjust_debt(1048576.0);
        }
        let d = m.allocation_debt();
        m.adjust_debt(target - d);
        let rt = &mut self.rt[a as usize];
        rt.debt_scale = rt.debt_scale.max(1048576.0).max((target - d).abs());
        rt.neg_adjust = true;
        rt.wake = None;
        rt.sleep = None;
    }

    pub fn ev_collect(&mut self, a: Aid, debt: Debt, call: Call, then: &mut MarkedAction, g: GenRef<'_>) {
        if !self.sh.arena_alive(a) || self.arenas[a as usize].is_none() {
            return;
        }
        // fence (DESIGN 3): a collect_debt issued mid-cycle may cross a cycle boundary unobserved;
        // never while resurrected objects are being protected for "this cycle"
        let p = self.phase(a);
        if call == Call::CollectDebt && p != Phase::Sleeping && !self.sh.arena(a).resurrected.is_empty() {
            return;
        }
        match debt {
            Debt::Leave => {}
            Debt::Set(x) => self.set_debt(a, x),
            Debt::Add(x) => self.ev_adjust_debt(a, x),
        }
        self.stats.collect_calls += 1;
        let m = self.metrics(a).clone();
        let pacing = self.sh.arena(a).pacing;
        let d0 = m.allocation_debt();
        let dpos = d0 > 0.0;
        let (protect, weak_protect) = self.protection(a);
        let fired0 = tok::faults_fired();
        let drops0 = tok::drop_log_len();
        let count0 = m.total_gc_count();
        self.observe_state(a, 0xC0);
        // marking work that can be seen through the hook: (objects marked, tracing objects fully traced)
        // (not for collect_debt: it alone may finish the cycle and be back in a *new* marking phase
        // when it returns or unwinds - the fence of DESIGN 3 - so "stayed in marking" is unknowable)
        let work0 = if self.cfg.coverage && call != Call::CollectDebt && matches!(p, Phase::Marking | Phase::Marked) { self.snapshot(a).map(|s| mark_work(&s)) } else { None };
        // the same for a call that stays inside the sweep: what it may pay is what it kept,
        // destructed and released
        let sweep0 = if self.cfg.coverage && call != Call::CollectDebt && p == Phase::Sweeping && dpos { self.snapshot(a) } else { None };
        // marking phases begun inside the call = root traces - the one re-trace that may be pending
        let root_ticks0 = tok::root_ticks();
        let root_pending0 = matches!(p, Phase::Marking | Phase::Marked) && self.snapshot(a).is_some_and(|s| s.root_needs_trace);

        self.shield(&protect, &weak_protect);
        let res = {
            let slot = self.arenas[a as usize].as_mut().unwrap();
            let _c = seam::enter(seam::CTX_COLLECT, a as u16);
            guarded(|| {
                let _t = seam::track();
                with_arena!(slot.arena, ar => match call {
                    Call::CollectDebt => {
                        ar.collect_debt();
                        false
                    }
                    Call::MarkDebt => ar.mark_debt().is_some(),
                    Call::FinishMarking => ar.finish_marking().is_some(),
                    Call::CycleDebt => {
                        ar.cycle_debt();
                        false
                    }
                    Call::FinishCycle => {
                        ar.finish_cycle();
                        false
                    }
                })
            })
        };
        self.unshield();
        self.process_events(&protect, &weak_protect);
        if matches!(res, Caught::Stopped) && self.ok() {
            self.violate("H.stopped", "a destructor stopped the run but no oracle explains why".into());
        }
        let faulted = tok::faults_fired() != fired0;
        self.stats.faults_fired += tok::faults_fired() - fired0;
        let some = match res {
            Caught::Ok(s) => s,
            Caught::Injected | Caught::Stopped => false,
            Caught::Unexpected(msg) => {
                // a collection call that panics did not end in any allowed phase either (C08)
                self.violate_with("C10.panic", &["C08.transition"], format!("{call:?} on arena {a} (phase {}) panicked instead of returning: {msg}", phase_name(p)));
                return;
            }
        };
        if !self.ok() {
            return;
        }
        let post = self.phase(a);
        let d1 = m.allocation_debt();
        self.dig((phase_code(post) as u64) << 4 | some as u64);
        self.sigmix(0xC0 + call as u64 * 16 + phase_code(p) as u64 * 4 + phase_code(post) as u64);
        if self.cfg.coverage {
            let dc = if !dpos {
                "zero"
            } else if d0 <= 1.0 / 512.0 {
                "eps"
            } else if d0 < 1e6 {
                "moderate"
            } else {
                "huge"
            };
            self.stats.cell(format!("call|{call:?}|{}|{dc}|{}", phase_name(p), if pacing.all_zero() { "stw" } else { "paced" }));
        }
        if (p != Phase::Sleeping) || (post != Phase::Sleeping) {
            self.stats.flag("C01.collect-mid-cycle");
        }
        if faulted {
            self.stats.flag("C11.fault-fired");
            let rt = &mut self.rt[a as usize];
            rt.faulted_cycle = true;
            rt.wake = None;
            rt.sleep = None;
            rt.dead_set = None;
        }
        let unwound = matches!(res, Caught::Injected);
        if !unwound && (tok::faults_fired() > 0 || self.stats.callback_panics > 0 || self.stats.ctor_failures > 0) {
            self.stats.flag("C11.collect-after-fault");
        }
        if self.live_arenas().iter().filter(|x| self.phase(**x) != Phase::Sleeping).count() >= 2 {
            self.stats.flag("C20.two-mid-cycle");
        }

        // ---- C10: a call that stayed inside the marking phase pays no more debt than the marking
        // work it did (objects it marked first, tracing objects it traced to completion): in
        // particular a trace that unwound and was queued again has paid nothing
        if let (Some((m0, t0)), true) = (work0, matches!(post, Phase::Marking | Phase::Marked)) {
            if let Some((m1, t1)) = self.snapshot(a).map(|s| mark_work(&s)) {
                let work = pacing.mark * (m1 as f64 - m0 as f64) + pacing.trace * (t1 as f64 - t0 as f64);
                let paid = d0 - d1;
                let dyadic = [pacing.mark, pacing.trace, pacing.keep, pacing.drop, pacing.free].iter().all(|f| (f * 1024.0).fract() == 0.0);
                let hidden = self.rt[a as usize].debt_scale.max(self.rt[a as usize].allocs as f64);
                let scale = d0.abs().max(work.abs()).max(hidden);
                let tol = if dyadic { 64.0 * f64::EPSILON * scale } else { 1e-9 * (1.0 + scale) };
                self.stats.flag("C10.mark-work-checked");
                if unwound {
                    self.stats.flag("C10.unwound-trace-checked");
                }
                if d0 > 0.0 && paid > work.max(0.0) + tol {
                    self.violate(
                        "C10.decrease",
                        format!(
                            "{call:?} on arena {a} stayed in the marking phase{}; it marked {} objects and completed {} traces (worth {work} at the current pacing) but allocation_debt went from {d0} to {d1}",
                            if unwound { " and unwound out of a trace" } else { "" },
                            m1 as i64 - m0 as i64,
                            t1 as i64 - t0 as i64
                        ),
                    );
                    return;
                }
            }
        }
        if let (Some(s0), true, false) = (sweep0, post == Phase::Sweeping, unwound) {
            if let Some(s1) = self.snapshot(a) {
                let after: std::collections::BTreeMap<usize, (bool, bool)> = s1.objects.iter().map(|o| (o.addr, (o.live, o.pending_sweep))).collect();
                let (mut kept, mut destructed, mut freed) = (0u32, 0u32, 0u32);
                for o in s0.objects.iter().filter(|o| o.pending_sweep) {
                    match after.get(&o.addr) {
                        None => {
                            freed += 1;
                            destructed += o.live as u32;
                        }
                        Some((live1, pending1)) => {
                            if !*pending1 {
                                kept += 1;
                                destructed += (o.live && !*live1) as u32;
                            }
                        }
                    }
                }
                let work = pacing.keep * kept as f64 + pacing.drop * destructed as f64 + pacing.free * freed as f64;
                let paid = d0 - d1;
                let dyadic = [pacing.mark, pacing.trace, pacing.keep, pacing.drop, pacing.free].iter().all(|f| (f * 1024.0).fract() == 0.0);
                let hidden = self.rt[a as usize].debt_scale.max(self.rt[a as usize].allocs as f64);
                let scale = d0.abs().max(work.abs()).max(hidden);
                let tol = if dyadic { 64.0 * f64::EPSILON * scale } else { 1e-9 * (1.0 + scale) };
                self.stats.flag("C10.sweep-work-checked");
                // (address reuse cannot confuse the comparison: nothing is allocated inside a collection call)
                if paid > work + tol {
                    self.violate(
                        "C10.decrease",
                        format!("{call:?} on arena {a} stayed inside the sweep; it kept {kept} objects, destructed {destructed} values and released {freed} blocks (worth {work} at the current pacing) but allocation_debt went from {d0} to {d1}"),
                    );
                    return;
                }
            }
        }
        // ---- C08: phase protocol
        if !unwound {
            let allowed = allowed_post(call, p, dpos);
            if !allowed.contains(&post) {
                self.violate("C08.transition", format!("{call:?} from {} with debt {d0} ended in {}", phase_name(p), phase_name(post)));
                return;
            }
            let expect_some = match call {
                Call::MarkDebt => post == Phase::Marked,
                Call::FinishMarking => p != Phase::Sweeping,
                _ => false,
            };
            if some != expect_some {
                let d = format!("{call:?} from {} returned {} (ended {})", phase_name(p), if some { "Some" } else { "None" }, phase_name(post));
                if some {
                    // let the finalizer look at what was handed out before the run stops
                    self.violate_deferred("C08.option", d);
                } else {
                    self.violate("C08.option", d);
                    return;
                }
            }
        }
        // ---- C09: debt-driven calls pay their debt or stop where documented
        if !unwound {
            match call {
                Call::CollectDebt if d1 != 0.0 => {
                    self.violate("C09.collect-debt", format!("collect_debt returned with debt {d1} (phase {})", phase_name(post)));
                    return;
                }
                Call::CycleDebt if d1 != 0.0 && post != Phase::Sleeping => {
                    self.violate("C09.cycle-debt", format!("cycle_debt returned with debt {d1} in phase {}", phase_name(post)));
                    return;
                }
                Call::MarkDebt if d1 != 0.0 && !matches!(post, Phase::Marked | Phase::Sweeping) => {
                    self.violate("C09.mark-debt", format!("mark_debt returned with debt {d1} in phase {}", phase_name(post)));
                    return;
                }
                _ => {}
            }
            if pacing.all_zero() && dpos && matches!(call, Call::CollectDebt | Call::CycleDebt) && post != Phase::Sleeping {
                self.violate("C09.stop-the-world", format!("all work factors are zero and debt was {d0}, but {call:?} returned in {}", phase_name(post)));
                return;
            }
        }
        // the sweep's start, in allocations (for the sleep oracle of cycles whose sweep is
        // interleaved with allocation)
        {
            let rt = &mut self.rt[a as usize];
            if call == Call::CollectDebt && p != Phase::Sleeping && dpos {
                rt.allocs_at_sweep_start = None; // may have crossed a cycle boundary unseen
            } else if p != Phase::Sweeping && post == Phase::Sweeping {
                rt.allocs_at_sweep_start = Some(rt.allocs);
            }
        }
        let begun = (tok::root_ticks() - root_ticks0).saturating_sub(root_pending0 as u64);
        self.c09_after_call(a, call, p, post, d0, d1, count0, unwound, drops0, begun);
        if post != Phase::Sweeping {
            self.rt[a as usize].allocs_at_sweep_start = None;
        }
        if !self.ok() {
            return;
        }

        // ---- cycle bookkeeping
        {
            let resurrected_nonempty = !self.sh.arena(a).resurrected.is_empty();
            let rt = &mut self.rt[a as usize];
            if p == Phase::Sleeping && post != Phase::Sleeping {
                rt.clean_since_wake = true;
                rt.faulted_cycle = faulted;
            }
            if call == Call::CollectDebt && p != Phase::Sleeping && dpos {
                // may have crossed a cycle boundary unobserved
                rt.clean_since_wake = false;
                rt.dead_set = None;
            }
            if p == Phase::Sleeping && post == Phase::Sleeping && dpos {
                // a whole cycle ran inside the call
                rt.clean_since_wake = false;
            }
            let _ = resurrected_nonempty;
        }
        if post == Phase::Sleeping {
            self.end_of_cycle(a, drops0);
        }
        if post == Phase::Marked && !unwound {
            self.rt[a as usize].expect_marking = false;
        }
        self.check_metrics(a);
        self.observe_state(a, 0xC1 + call as u64);
        if !self.ok() {
            return;
        }

        // ---- the MarkedArena, if one was handed out
        if some {
            self.stats.marked_arenas += 1;
            match then {
                MarkedAction::Drop => {}
                MarkedAction::StartSweeping => self.marked_start_sweeping(a),
                MarkedAction::Finalize(ops) => self.marked_finalize(a, ops, g),
            }
        }
    }

    /// C09: liveness bound and sleep bookkeeping around a collection call.
    #[allow(clippy::too_many_arguments)]
    fn c09_after_call(&mut self, a: Aid, call: Call, p: Phase, post: Phase, d0: f64, _d1: f64, count0: usize, unwound: bool, drops0: usize, begun: u64) {
        let pacing = self.sh.arena(a).pacing;
        let debt_driven = matches!(call, Call::CollectDebt | Call::CycleDebt | Call::MarkDebt);
        let dpos = d0 > 0.0;
        // a call allocates nothing. The first cycle it begins runs from Sleeping as one atomic unit,
        // so it carries no debt over when it ends, and the collector has to stay asleep from then
        // on: no call ever begins two marking phases (seen from outside as traces of the root)
        if !unwound && begun >= 2 {
            self.violate("C09.asleep", format!("{call:?} entered in phase {} began {begun} marking phases in one call: the first whole cycle ran atomically, no allocation was made after it, yet the collector did not stay asleep", phase_name(p)));
            return;
        }
        // asleep below the threshold: debt-driven calls change nothing
        if let Some((w, n)) = self.rt[a as usize].sleep_w() {
            if p == Phase::Sleeping && (n as f64) <= w && debt_driven && !unwound {
                self.stats.flag("C09.sleep-checked");
                if post != Phase::Sleeping || tok::drop_log_len() != drops0 {
                    self.violate("C09.asleep", format!("{n} allocations since the cycle ended (threshold {w}) but {call:?} made progress (phase {}, {} destructors)", phase_name(post), tok::drop_log_len() - drops0));
                    return;
                }
            }
        }
        if post != Phase::Sleeping || p != Phase::Sleeping {
            // no longer the sleep that followed that cycle
            if p != Phase::Sleeping || post != Phase::Sleeping {
                self.rt[a as usize].sleep = None;
            }
        }
        if unwound || self.stats.drop_faults > 0 {
            // after a destructor fault the crate leaks a block it still counts: the pacing
            // bookkeeping (survivors, H) no longer means what the oracles assume
            self.rt[a as usize].wake = None;
            self.rt[a as usize].sleep = None;
            return;
        }
        // the liveness bound: still unfinished after cycle_debt => A < rho*H/(1-rho)
        let rho = pacing.rho();
        if call == Call::CycleDebt && post != Phase::Sleeping && p != Phase::Sleeping {
            if let Some((h, n)) = self.rt[a as usize].wake {
                if rho < 1.0 && !self.rt[a as usize].neg_adjust && !self.rt[a as usize].pacing_changed {
                    let bound = rho * h as f64 / (1.0 - rho);
                    self.stats.flag("C09.bound-checked");
                    let r = if bound > 0.0 { n as f64 / bound } else { 0.0 };
                    if r > self.c09_max_ratio {
                        self.c09_max_ratio = r;
                    }
                    if !((n as f64) < bound) && n > 0 {
                        self.violate("C09.bound", format!("cycle woke with H = {h}; {n} allocations later it is still unfinished after cycle_debt, but rho*H/(1-rho) = {bound} (rho = {rho})"));
                        return;
                    }
                }
            }
        }
        // a debt-driven wake observed
        if p == Phase::Sleeping && post != Phase::Sleeping && debt_driven && dpos {
            let rt = &mut self.rt[a as usize];
            rt.wake = if rt.neg_adjust || rt.pacing_changed { None } else { Some((count0, 0)) };
            self.stats.flag("C09.debt-driven-wake");
        } else if p == Phase::Sleeping && post != Phase::Sleeping {
            self.rt[a as usize].wake = None;
        }
        if call == Call::CollectDebt && p != Phase::Sleeping && dpos {
            // may have crossed a cycle boundary unobserved
            self.rt[a as usize].wake = None;
        }
        if post == Phase::Sleeping {
            self.rt[a as usize].wake = None;
            // a cycle that provably carried no debt over: it ran atomically from Sleeping, or the
            // debt read zero right before the finish_cycle that ended it (and the whole sweep ran
            // inside this call, so every object alive now was remembered by it)
            let atomic = p == Phase::Sleeping && (call == Call::FinishCycle || (debt_driven && dpos && call != Call::MarkDebt));
            // collect_debt entered mid-cycle that finished that cycle, still had debt, and ran one
            // more whole cycle before returning asleep: that second cycle was atomic too
            let atomic_second = call == Call::CollectDebt && p != Phase::Sleeping && dpos && begun == 1 && !unwound;
            if atomic_second {
                self.stats.flag("C09.sleep-after-rolled-over-collect-debt");
            }
            let atomic = atomic || atomic_second;
            let zero_carry = call == Call::FinishCycle && p != Phase::Sleeping && p != Phase::Sweeping && d0 == 0.0;
            // finish_cycle from the middle of a sweep with zero debt: nothing is carried either
            // (the call allocates nothing, credits only lower the debt). What the sweep kept is
            // everything that exists now minus what was allocated since the sweep began: those
            // objects sit in front of the cursor, the sweep neither visits nor remembers them.
            let sweep_allocs = self.rt[a as usize].allocs_at_sweep_start.map(|s0| self.rt[a as usize].allocs - s0);
            let zero_carry_sweep = call == Call::FinishCycle && p == Phase::Sweeping && d0 == 0.0 && sweep_allocs.is_some();
            // a cycle that ends with nothing left in the arena carries nothing either: an arena
            // holding no allocations has zero debt (C10), and what is carried is the debt at the
            // moment the cycle ends
            // (a cycle must really have ended in this call: debt added by adjust_debt while an
            // empty arena sleeps is hidden, not forgiven)
            let empty_end = self.metrics(a).total_gc_count() == 0 && !unwound && p != Phase::Sleeping;
            if empty_end && !(atomic || zero_carry || zero_carry_sweep) {
                self.stats.flag("C09.sleep-after-emptying-cycle");
            }
            if (atomic || zero_carry || zero_carry_sweep || empty_end) && !self.rt[a as usize].pacing_changed_since_last_cycle_end() {
                let mut survivors = self.metrics(a).total_gc_count();
                if zero_carry_sweep {
                    survivors = survivors.saturating_sub(sweep_allocs.unwrap_or(0));
                    self.stats.flag("C09.sleep-after-interleaved-sweep");
                }
                let w = (survivors as f64 * pacing.sleep_factor).max(pacing.min_sleep as f64);
                self.rt[a as usize].sleep = Some((survivors, 0));
                self.rt[a as usize].sleep_threshold = w;
            } else if !(p == Phase::Sleeping && !dpos && debt_driven) {
                self.rt[a as usize].sleep = None;
            }
        }
    }

    /// C09 while asleep: debt reads zero up to the threshold and exactly the excess beyond it.
    pub fn c09_check_sleep(&mut self, a: Aid) {
        if !self.ok() || self.arenas[a as usize].is_none() {
            return;
        }
        let Some((w, n)) = self.rt[a as usize].sleep_w() else { return };
        if self.phase(a) != Phase::Sleeping {
            self.rt[a as usize].sleep = None;
            return;
        }
        let d = self.metrics(a).allocation_debt();
        if (n as f64) <= w {
            if d != 0.0 {
                self.violate("C09.asleep", format!("{n} allocations since the cycle ended, threshold {w}, but allocation_debt reads {d}"));
            }
        } else {
            self.stats.flag("C09.threshold-crossed");
            let want = n as f64 - w;
            if !(d > 0.0) || (d - want).abs() > 1e-9 * (1.0 + want) {
                self.violate("C09.wake", format!("{n} allocations since the cycle ended exceed the threshold {w}, but allocation_debt reads {d} (expected {want})"));
            }
        }
    }

    /// The cycle of arena `a` has been observed to end.
    fn end_of_cycle(&mut self, a: Aid, _drops0: usize) {
        // C07.dead-set: with nothing mutated between the finalize callback and here, the cycle
        // destructed exactly the dead, un-resurrected objects not reachable from a resurrected one
        if let Some(expected) = self.rt[a as usize].dead_set.take() {
            let got: BTreeSet<Id> = self.sh.arena_objs(a).filter(|(_, o)| o.destructed && !o.toks.is_empty()).map(|(i, _)| *i).filter(|i| self.rt[a as usize].dead_set_base.contains(i)).collect();
            if got != expected {
                let missing: Vec<_> = expected.difference(&got).collect();
                let extra: Vec<_> = got.difference(&expected).collect();
                self.violate("C07.dead-set", format!("cycle ended: dead un-resurrected objects not destructed {missing:?}; destructed although resurrected or reachable from a resurrected object {extra:?}"));
            }
        }
        self.sh.arena_mut(a).resurrected.clear();
        // evidence: exotic layouts that lived through a cycle, converted edges that kept a value alive
        let reach = self.sh.reach(a);
        let mut exotic = vec![];
        let mut conv_edge = false;
        for (i, o) in self.sh.arena_objs(a) {
            if o.released {
                continue;
            }
            if let Some((_, len, _, size, align)) = o.lay {
                if align > 16 || size == 0 || len == 0 {
                    exotic.push(*i);
                }
            }
            if reach.contains(i) && o.conv.iter().enumerate().any(|(k, c)| *c != Conv::None && o.strong.get(k).is_some_and(|e| e.is_some())) {
                conv_edge = true;
            }
        }
        self.rt[a as usize].exotic_survivors.extend(exotic);
        if conv_edge {
            self.stats.flag("C19.converted-edge-survived-cycle");
        }
        let rt = &mut self.rt[a as usize];
        rt.up_stored.clear();
        rt.adopted_prev = std::mem::take(&mut rt.adopted_cur);
        rt.adopted_weak_prev = std::mem::take(&mut rt.adopted_weak_cur);
        rt.expect_marking = false;
        rt.neg_adjust = false;
        rt.pacing_changed = false;
        rt.faulted_cycle = false;
    }

    fn reacquire_marked<R>(&mut self, a: Aid, f: impl FnOnce(&mut World, &mut ArenaSlot) -> R) -> Option<R> {
        let mut slot = self.arenas[a as usize].take().unwrap();
        let r = f(self, &mut slot);
        self.arenas[a as usize] = Some(slot);
        Some(r)
    }

    /// Tell the seams what the call about to be made must not destruct or release.
    fn shield(&mut self, protect: &BTreeSet<Id>, weak_protect: &BTreeSet<Id>) {
        let mut toks = vec![];
        for i in protect {
            if let Some(o) = self.sh.objs.get(i) {
                toks.extend(o.toks.iter().copied());
            }
        }
        tok::set_protected(toks);
        seam::set_protected(protect.iter().chain(weak_protect.iter()).copied());
    }
    fn unshield(&mut self) {
        tok::clear_protected();
        seam::clear_protected();
    }

    fn marked_start_sweeping(&mut self, a: Aid) {
        let (protect, weak_protect) = self.protection(a);
        let r = self.reacquire_marked(a, |_me, slot| {
            let _c = seam::enter(seam::CTX_COLLECT, a as u16);
            guarded(|| {
                let _t = seam::track();
                with_arena!(slot.arena, ar => match ar.mark_debt() {
                    Some(m) => {
                        m.start_sweeping();
                        true
                    }
                    None => false,
                })
            })
        });
        self.process_events(&protect, &weak_protect);
        match r {
            Some(Caught::Ok(true)) => {
                let post = self.phase(a);
                if post != Phase::Sweeping {
                    self.violate("C08.transition", format!("start_sweeping ended in {}", phase_name(post)));
                }
                self.rt[a as usize].allocs_at_sweep_start = Some(self.rt[a as usize].allocs);
                self.stats.cell("call|StartSweeping|Marked".into());
                self.sigmix(0xC9);
            }
            Some(Caught::Ok(false)) => self.violate("C08.option", "the arena was Marked but mark_debt returned no MarkedArena".into()),
            Some(Caught::Injected) | Some(Caught::Stopped) => {}
            // a start_sweeping that panics did not end Sweeping either (C08)
            Some(Caught::Unexpected(m)) => self.violate_with("C10.panic", &["C08.transition"], format!("start_sweeping panicked instead of returning: {m}")),
            None => {}
        }
        self.check_metrics(a);
        self.observe_state(a, 0xC9);
    }

    fn marked_finalize(&mut self, a: Aid, ops: &mut Vec<Op>, g: GenRef<'_>) {
        self.stats.finalize_cbs += 1;
        let m = self.metrics(a).clone();
        let (d0, c0) = (m.allocation_debt(), m.total_gc_count());
        let p = self.phase(a);
        let clean0 = self.rt[a as usize].clean_since_wake;
        let reach0 = self.sh.reach(a);
        // candidates for C07.dead-set: tokened, undestructed, unreachable at handout
        let dead0: BTreeSet<Id> = self.sh.arena_objs(a).filter(|(i, o)| !o.toks.is_empty() && !o.destructed && !reach0.contains(i)).map(|(i, _)| *i).collect();
        let recorded = std::mem::take(ops);
        let mut out = vec![];
        let mut slot = self.arenas[a as usize].take().unwrap();
        let ctxg = seam::enter(seam::CTX_CALLBACK, a as u16);
        let res = {
            let mut src = match g {
                Some(g) => Src::Gen { g, out: &mut out },
                None => Src::Replay { ops: &recorded, pos: 0 },
            };
            let me = &mut *self;
            guarded(|| {
                let _t = seam::track();
                with_arena_root!(slot.arena, ar => match ar.mark_debt() {
                    Some(m) => Some(m.finalize(|fc, root| crate::events::finalize_body(me, a, fc, &root.body, p, &mut src))),
                    None => None,
                }, ar => match ar.mark_debt() {
                    Some(m) => Some(m.finalize(|fc, _root| {
                        let rb = {
                            let _p = seam::pause();
                            crate::payload::empty_root_body(crate::tok::ROOT_SITE + a as u32)
                        };
                        let r = crate::events::finalize_body(me, a, fc, &rb, p, &mut src);
                        let _p = seam::pause();
                        drop(rb);
                        r
                    })),
                    None => None,
                })
            })
        };
        drop(ctxg);
        self.arenas[a as usize] = Some(slot);
        *ops = if out.is_empty() { recorded } else { out };
        let empty = BTreeSet::new();
        self.process_events(&empty, &empty);
        let rep = match res {
            Caught::Ok(Some(r)) => Some(r),
            Caught::Ok(None) => {
                self.violate("C08.option", "the arena was Marked but mark_debt returned no MarkedArena".into());
                return;
            }
            Caught::Injected | Caught::Stopped => None,
            Caught::Unexpected(msg) => {
                self.violate("C10.panic", format!("a finalize callback call panicked: {msg}"));
                return;
            }
        };
        if !self.ok() {
            return;
        }
        // arm C07.dead-set if the callback did nothing but (possibly) resurrect
        if let Some(r) = &rep {
            let only_resurrects = !r.mutated && r.allocated == 0;
            if clean0 && only_resurrects && !self.rt[a as usize].faulted_cycle {
                let mut protected: BTreeSet<Id> = BTreeSet::new();
                for r in self.sh.arena(a).resurrected.iter() {
                    protected.extend(self.sh.closure(*r));
                }
                let expected: BTreeSet<Id> = dead0.iter().filter(|i| !protected.contains(i)).copied().collect();
                self.rt[a as usize].dead_set_base = dead0.clone();
                self.rt[a as usize].dead_set = Some(expected);
            }
            if r.resurrected_dead {
                self.rt[a as usize].expect_marking = true;
            }
        }
        self.after_callback(a, p, d0, c0, rep.as_ref(), true);
        self.sigmix(0xCF);
    }

    // --------------------------------------------------------------------------------------------
    // suffixes

    fn quiet_cycle(&mut self, a: Aid) -> bool {
        let mut none = MarkedAction::Drop;
        self.ev_collect(a, Debt::Leave, Call::FinishCycle, &mut none, None);
        self.ok()
    }

    /// finish_cycle x2 + exactness (C02), clear weak slots, one more full cycle, shells released.
    pub fn settle_arena(&mut self, a: Aid) {
        if !self.sh.arena_alive(a) {
            return;
        }
        tok::disarm_all();
        if self.rt[a as usize].leaked_guard {
            // a fault the client planted for good: no cycle can be promised to finish
            return;
        }
        let cut_phase = self.phase(a);
        if cut_phase != Phase::Sleeping {
            self.stats.flag("C02.cut-mid-cycle");
        }
        // the resurrected set only protects "this cycle"; finish_cycle ends it
        if !self.quiet_cycle(a) || !self.quiet_cycle(a) {
            return;
        }
        let reach = self.sh.reach(a);
        let shells = self.sh.weak_targets(a, &reach);
        let mut has_cycle_garbage = false;
        let ids: Vec<Id> = self.sh.arena_objs(a).map(|(i, _)| *i).collect();
        for i in &ids {
            let o = self.sh.objs[i].clone();
            let r = reach.contains(i);
            if r {
                if o.destructed || o.released {
                    self.violate("C02.lost", format!("after two finish_cycle calls reachable object {i} is destructed / released"));
                    return;
                }
            } else {
                if !o.toks.is_empty() && !o.destructed {
                    self.violate("C02.survivor", format!("after two finish_cycle calls unreachable object {i} ({:?}) has not been destructed", o.kind));
                    return;
                }
                if shells.contains(i) {
                    if o.released {
                        self.violate("C05.shell-released", format!("object {i} is weakly referenced from a reachable object but its block was released"));
                        return;
                    }
                } else if seam::active() && !o.released && !o.drop_faulted {
                    self.violate("C02.survivor", format!("after two finish_cycle calls the block of unreachable, unreferenced object {i} ({:?}) is still allocated", o.kind));
                    return;
                }
                if o.strong.iter().flatten().any(|c| !reach.contains(c)) {
                    has_cycle_garbage = true;
                }
            }
        }
        if has_cycle_garbage {
            self.stats.flag("C02.garbage-with-edges");
        }
        if !shells.is_empty() {
            self.stats.flag("C02.weakly-held-garbage");
        }
        // blocks the crate leaks by construction: a destructor that unwound while the sweep was
        // freeing the object (the object is unlinked first, the release never happens)
        let leaked = |me: &World| me.sh.arena_objs(a).filter(|(i, o)| o.drop_faulted && !o.released && !reach.contains(i) && !shells.contains(i)).count();
        let count = self.metrics(a).total_gc_count();
        if count != reach.len() + shells.len() + leaked(self) {
            self.violate("C02.count", format!("after two finish_cycle calls total_gc_count = {count}, expected {} reachable + {} shells", reach.len(), shells.len()));
            return;
        }
        // is_dropped is true on exactly the shells; then clear every reachable weak slot
        let mut ops: Vec<Op> = vec![];
        let arsh = self.sh.arena(a).clone();
        for (k, w) in arsh.root_weak.iter().enumerate() {
            if w.is_some() {
                ops.push(Op::IsDropped { holder: Holder::Root, slot: k as u8 });
                ops.push(Op::UnlinkWeak { holder: Holder::Root, slot: k as u8, route: Route::Default });
            }
        }
        for i in &reach {
            let o = &self.sh.objs[i];
            for (k, w) in o.weak.iter().enumerate() {
                if w.is_some() {
                    ops.push(Op::IsDropped { holder: Holder::Obj(*i), slot: k as u8 });
                    ops.push(Op::UnlinkWeak { holder: Holder::Obj(*i), slot: k as u8, route: Route::Default });
                }
            }
        }
        let had_shells = !shells.is_empty();
        self.ev_mutate(a, CbKind::MutateRoot, &mut ops, None);
        if !self.ok() {
            return;
        }
        if !self.quiet_cycle(a) {
            return;
        }
        let count = self.metrics(a).total_gc_count();
        let leaked_now = self.sh.arena_objs(a).filter(|(i, o)| o.drop_faulted && !o.released && !reach.contains(i)).count();
        if count != reach.len() + leaked_now {
            self.violate("C02.shell-kept", format!("no weak pointer is left, a full cycle ran, but total_gc_count = {count} with {} reachable objects", reach.len()));
            return;
        }
        if had_shells {
            for s in &shells {
                if seam::active() && !self.sh.objs[s].released && !self.sh.objs[s].drop_faulted {
                    self.violate("C02.shell-kept", format!("shell {s} was not released by the first full cycle after its last weak pointer went away"));
                    return;
                }
            }
        }
    }

    pub fn run_suffix(&mut self, suffix: Suffix) {
        if self.stream.is_some() {
            self.stream_line('S', serde_json::to_string(&suffix).unwrap_or_default());
        }
        // events of the suffix are numbered after the recorded ones
        match suffix {
            Suffix::None => {}
            Suffix::Settle => {
                for a in self.live_arenas() {
                    if self.ok() {
                        self.settle_arena(a);
                    }
                }
            }
            Suffix::DropNow => {}
        }
        if suffix != Suffix::None {
            for a in self.live_arenas() {
                if self.ok() {
                    self.ev_drop_arena(a);
                }
            }
            // handles outlive their arenas harmlessly
            let hs: Vec<Hid> = self.handles.keys().copied().collect();
            for (n, h) in hs.iter().enumerate() {
                if !self.ok() {
                    break;
                }
                if n % 2 == 0 {
                    let new = self.sh.next_hid;
                    self.ev_handle(*h, HandleOp::Clone { new });
                    if self.handles.contains_key(&new) {
                        self.ev_handle(new, HandleOp::Drop);
                    }
                }
                self.ev_handle(*h, HandleOp::Drop);
            }
            if self.ok() && seam::active() {
                for a in 0..self.rt.len() {
                    self.rt[a].retained = None;
                }
                for a in 0..self.rt.len() {
                    let out: Vec<u32> = seam::outstanding(a as u16).into_iter().filter(|b| {
                        let ow = seam::block(*b).owner;
                        !(ow != 0 && self.sh.objs.get(&(ow - 1)).is_some_and(|o| o.drop_faulted))
                    }).collect();
                    if !out.is_empty() {
                        let b = seam::block(out[0]);
                        self.violate("C04.outstanding", format!("arena {a} and all its handles are gone but {} blocks it allocated were never returned (first: size {}, align {}, owner {})", out.len(), b.size, b.align, b.owner));
                        break;
                    }
                }
            }
        }
    }

    // --------------------------------------------------------------------------------------------
    // dispatcher

    /// Observables of every arena other than `acting` (C20 isolation frame).
    fn frame(&self, acting: Option<Aid>) -> Vec<(Aid, u8, u64, usize, i64, u64, usize)> {
        let mut v = vec![];
        for b in self.live_arenas() {
            if Some(b) == acting {
                continue;
            }
            let m = self.metrics(b);
            let h = self.snapshot(b).map(|s| self.state_hash(b, &s)).unwrap_or(0);
            let drops = self.sh.arena_objs(b).filter(|(_, o)| o.destructed).count();
            v.push((b, phase_code(self.phase(b)), m.allocation_debt().to_bits(), m.total_gc_count(), seam::live_gc_blocks(b as u16), h, drops));
        }
        v
    }

    pub fn exec_event(&mut self, ev: &mut Event, g: GenRef<'_>) {
        self.stats.events += 1;
        let acting: Option<Aid> = match ev {
            Event::Mutate { a, .. } | Event::Collect { a, .. } | Event::SetPacing { a, .. } | Event::AdjustDebt { a, .. } | Event::NewArena { a, .. } | Event::DropArena { a } | Event::Rootless { a, .. } => Some(*a),
            Event::Handle { h, .. } => self.handles.get(h).map(|x| x.arena),
            Event::ArmTraceFault { .. } | Event::ArmDropFault { .. } => None,
        };
        if self.stream.is_some() {
            // the event with its op lists emptied: ops follow one by one as they are executed
            let mut shell = ev.clone();
            match &mut shell {
                Event::Mutate { ops, .. } | Event::NewArena { ops, .. } | Event::Rootless { ops, .. } | Event::Collect { then: MarkedAction::Finalize(ops), .. } => ops.clear(),
                _ => {}
            }
            let j = serde_json::to_string(&shell).unwrap_or_default();
            self.stream_line('E', j);
        }
        let before = self.frame(acting);
        self.exec_event_inner(ev, g);
        if !self.ok() && !before.is_empty() {
            // some per-arena oracle fired; if the event also disturbed another arena, that is C20's
            let after = self.frame(acting);
            let disturbed = before.iter().any(|x| after.iter().find(|y| y.0 == x.0).is_some_and(|y| (x.1, x.2, x.3, x.4, x.6) != (y.1, y.2, y.3, y.4, y.6)));
            if disturbed {
                if let Some(v) = self.viol.as_mut() {
                    if !v.oracle.starts_with("C20") && !v.aliases.iter().any(|a| a == "C20.frame") {
                        v.aliases.push("C20.frame".to_string());
                    }
                }
            }
        }
        if self.ok() && !before.is_empty() {
            let after = self.frame(acting);
            for x in &before {
                if let Some(y) = after.iter().find(|y| y.0 == x.0) {
                    if x != y {
                        let what = if x.1 != y.1 {
                            "phase"
                        } else if x.2 != y.2 {
                            "allocation_debt"
                        } else if x.3 != y.3 {
                            "total_gc_count"
                        } else if x.4 != y.4 {
                            "live Gc blocks"
                        } else if x.6 != y.6 {
                            "destructed values"
                        } else {
                            "collector state (colours / lists / queues)"
                        };
                        self.ev_index -= 1;
                        self.violate("C20.frame", format!("an event on arena {:?} changed the {what} of arena {}", acting, x.0));
                        self.ev_index += 1;
                        break;
                    }
                }
            }
        }
    }

    fn exec_event_inner(&mut self, ev: &mut Event, g: GenRef<'_>) {
        match ev {
            Event::Mutate { a, cb, ops } => self.ev_mutate(*a, *cb, ops, g),
            Event::Collect { a, debt, call, then } => self.ev_collect(*a, *debt, *call, then, g),
            Event::Handle { h, op } => self.ev_handle(*h, *op),
            Event::SetPacing { a, p } => self.ev_set_pacing(*a, *p),
            Event::AdjustDebt { a, x } => self.ev_adjust_debt(*a, *x),
            Event::ArmTraceFault { at, repeat } => tok::arm_trace_fault(*at, *repeat),
            Event::ArmDropFault { nth } => tok::arm_drop_fault(*nth),
            Event::NewArena { a, root_set, ops, p, fail, bare, static_root } => self.ev_new_arena(*a, *root_set, ops, *p, *fail, *bare, *static_root, g),
            Event::DropArena { a } => self.ev_drop_arena(*a),
            Event::Rootless { a, root_set, ops } => self.ev_rootless(*a, *root_set, ops, g),
        }
        // isolation frame (C20) and per-event metrics oracles
        for a in self.live_arenas() {
            self.check_metrics(a);
            self.c09_check_sleep(a);
        }
        self.promote_pending();
        self.ev_index += 1;
    }
}
