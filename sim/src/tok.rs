//! Destructor seam (drop tokens + ordered drop log) and fault seam (`FaultPoint`, injected panics).
#![allow(static_mut_refs)]

use crate::seam;
use gc_arena::{Collect, collect::Trace};

pub type Id = u32;

/// Token ids handed out by the harness stay far below this.
pub const MAX_TOK: usize = 1 << 24;

/// Panic payload of every injected fault.
pub struct Injected;
/// Panic payload the harness uses to abandon a run from inside a callback.
pub struct StopRun;

#[derive(Clone, Copy, Debug)]
pub struct DropEvent {
    pub id: Id,
    pub ctx: u8,
    pub ctx_arena: u16,
}

struct Log {
    counts: Vec<u8>,
    events: Vec<DropEvent>,
    /// next token id for builder parts etc. is handed out by the harness, not here
    // fault plan
    ticks: u64,
    /// (tick at which to panic, remaining repeats)
    armed: Vec<(u64, u32)>,
    fired: u64,
    trace_sites: Vec<(u64, u32)>,
    record_sites: bool,
    /// tokens whose destruction the call in progress must not perform (C01): the destructor
    /// records the event and then stops the run by unwinding, before the block is released
    protected: Vec<Id>,
    /// destructor faults: Some(n) = the n-th destructor run by a collection method from now unwinds
    drop_fault_in: Option<u32>,
    drop_faulted: Vec<Id>,
    /// destructors that ran on something that is not a token (id, context)
    garbage: Vec<(Id, u8)>,
    /// zero-sized tokens (no identity: counted only) constructed / destructed in this run
    z_made: u64,
    z_dropped: u64,
    /// RefLock write guards the client leaked in this run (Op::LeakGuard)
    leaked_guards: u32,
    /// traces of arena roots (FaultPoint sites >= ROOT_SITE): one per marking phase begun, plus one
    /// per re-trace after a root mutation
    root_ticks: u64,
}

static mut LOG: Option<Log> = None;

fn log() -> &'static mut Log {
    unsafe {
        if LOG.is_none() {
            let _p = seam::pause();
            LOG = Some(Log { counts: vec![], events: vec![], ticks: 0, armed: vec![], fired: 0, trace_sites: vec![], record_sites: false, protected: vec![], drop_fault_in: None, drop_faulted: vec![], garbage: vec![], z_made: 0, z_dropped: 0, leaked_guards: 0, root_ticks: 0 });
        }
        LOG.as_mut().unwrap()
    }
}

pub fn begin_run() {
    let _p = seam::pause();
    let l = log();
    l.counts.clear();
    l.events.clear();
    l.ticks = 0;
    l.armed.clear();
    l.fired = 0;
    l.trace_sites.clear();
    l.record_sites = false;
    l.protected.clear();
    l.drop_fault_in = None;
    l.drop_faulted.clear();
    l.garbage.clear();
    l.z_made = 0;
    l.z_dropped = 0;
    l.leaked_guards = 0;
    l.root_ticks = 0;
}
pub fn root_ticks() -> u64 {
    log().root_ticks
}

/// The client leaked the write guard of a RefLock: from now on a trace of that lock panics with a
/// BorrowError, which is a fault the *client* injected (a panic out of a `Collect::trace`), not one
/// the crate is to blame for.
pub fn note_leaked_guard() {
    log().leaked_guards += 1;
}
pub fn leaked_guards() -> u32 {
    log().leaked_guards
}
/// Is this panic message the BorrowError of a leaked guard (only ever true in a run that leaked one)?
pub fn is_leaked_guard_panic(msg: &str) -> bool {
    log().leaked_guards > 0 && msg.contains("mutably borrowed")
}
pub fn note_fault_fired() {
    log().fired += 1;
}

/// A value whose destruction is observable. Every payload with a destructor carries one.
pub struct Tok(pub Id);
gc_arena::static_collect!(Tok);

impl Drop for Tok {
    fn drop(&mut self) {
        let _p = seam::pause();
        let l = log();
        let id = self.0 as usize;
        if id >= MAX_TOK {
            // no token with such an id was ever made: a destructor is running on memory that was
            // never initialised (fresh blocks are filled with 0xCD) or that has been released (0xDD)
            let (ctx, _) = seam::ctx();
            l.garbage.push((self.0, ctx));
            return;
        }
        if l.counts.len() <= id {
            l.counts.resize(id + 1, 0);
        }
        l.counts[id] = l.counts[id].saturating_add(1);
        let (ctx, ctx_arena) = seam::ctx();
        l.events.push(DropEvent { id: self.0, ctx, ctx_arena });
        if ctx == seam::CTX_COLLECT && l.protected.binary_search(&self.0).is_ok() && !std::thread::panicking() {
            // a strongly reachable value is being destructed: stop here, with the heap still intact
            l.protected.clear();
            std::panic::panic_any(StopRun);
        }
        // injected fault: this destructor (it has run: the token is counted) unwinds
        if (ctx == seam::CTX_COLLECT || ctx == seam::CTX_ARENA_DROP) && !std::thread::panicking() {
            if let Some(n) = l.drop_fault_in {
                if n <= 1 {
                    l.drop_fault_in = None;
                    l.drop_faulted.push(self.0);
                    l.fired += 1;
                    std::panic::panic_any(Injected);
                } else {
                    l.drop_fault_in = Some(n - 1);
                }
            }
        }
    }
}

/// Zero-sized values with a destructor (slice elements, C18): they cannot carry an id, so
/// constructions and destructions are counted. `ZTok16` is over-aligned, so that a slice of them
/// raises the alignment of the whole value without adding a byte to it.
pub struct ZTok(());
#[repr(align(16))]
pub struct ZTok16(());
gc_arena::static_collect!(ZTok);
gc_arena::static_collect!(ZTok16);
impl ZTok {
    #[allow(clippy::new_without_default)]
    pub fn new() -> ZTok {
        log().z_made += 1;
        ZTok(())
    }
}
impl ZTok16 {
    #[allow(clippy::new_without_default)]
    pub fn new() -> ZTok16 {
        log().z_made += 1;
        ZTok16(())
    }
}
impl Drop for ZTok {
    fn drop(&mut self) {
        log().z_dropped += 1;
    }
}
impl Drop for ZTok16 {
    fn drop(&mut self) {
        log().z_dropped += 1;
    }
}
/// (constructed, destructed) zero-sized tokens of this run.
pub fn z_counts() -> (u64, u64) {
    let l = log();
    (l.z_made, l.z_dropped)
}

/// The `n`-th destructor of an arena value run by a collection method from now on unwinds.
pub fn arm_drop_fault(n: u32) {
    log().drop_fault_in = Some(n.max(1));
}
/// Destructors that ran on memory holding no token since the last call.
pub fn take_garbage_drops() -> Vec<(Id, u8)> {
    let _p = seam::pause();
    std::mem::take(&mut log().garbage)
}

/// Tokens whose destructor unwound since the last call.
pub fn take_drop_faulted() -> Vec<Id> {
    let _p = seam::pause();
    std::mem::take(&mut log().drop_faulted)
}
pub fn drop_fault_pending() -> bool {
    log().drop_fault_in.is_some()
}

/// Tokens the collection call about to be made must not destruct (sorted).
pub fn set_protected(mut toks: Vec<Id>) {
    let _p = seam::pause();
    toks.sort_unstable();
    log().protected = toks;
}
pub fn clear_protected() {
    log().protected.clear();
}

pub fn drops(id: Id) -> u8 {
    log().counts.get(id as usize).copied().unwrap_or(0)
}

/// Drop events recorded since position `from`.
pub fn drop_events_since(from: usize) -> Vec<DropEvent> {
    let _p = seam::pause();
    log().events[from..].to_vec()
}

pub fn drop_log_len() -> usize {
    log().events.len()
}

// ------------------------------------------------------------------------------------------------
// faults

/// A field that is traced like any other; its `trace` is where trace panics are injected.
/// `site` names the owner (object id, or ROOT_SITE + arena for an arena root) for the logs.
pub struct FaultPoint(pub u32);
pub const ROOT_SITE: u32 = 0x8000_0000;

unsafe impl<'gc> Collect<'gc> for FaultPoint {
    const NEEDS_TRACE: bool = true;
    fn trace<T: Trace<'gc>>(&self, _cc: &mut T) {
        trace_tick(self.0);
    }
}

pub fn trace_tick(site: u32) {
    let l = log();
    l.ticks += 1;
    if site >= ROOT_SITE {
        l.root_ticks += 1;
    }
    let t = l.ticks;
    if l.record_sites {
        let _p = seam::pause();
        l.trace_sites.push((t, site));
    }
    let mut fire = false;
    for a in l.armed.iter_mut() {
        if a.1 > 0 && t >= a.0 {
            a.1 -= 1;
            fire = true;
            break;
        }
    }
    if fire {
        l.fired += 1;
        let _p = seam::pause();
        std::panic::panic_any(Injected);
    }
}

/// Panic at the `tick`-th FaultPoint trace of the run, and again at each of the next
/// `repeat - 1` trace calls that follow it.
pub fn arm_trace_fault(tick: u64, repeat: u32) {
    let _p = seam::pause();
    log().armed.push((tick, repeat));
}
pub fn disarm_all() {
    log().armed.clear();
    log().drop_fault_in = None;
}
pub fn ticks() -> u64 {
    log().ticks
}
pub fn faults_fired() -> u64 {
    log().fired
}
pub fn armed_pending() -> bool {
    log().armed.iter().any(|a| a.1 > 0)
}

pub fn install_panic_hook() {
    let default = std::panic::take_hook();
    std::panic::set_hook(Box::new(move |info| {
        let p = info.payload();
        if p.downcast_ref::<Injected>().is_some() || p.downcast_ref::<StopRun>().is_some() {
            return;
        }
        if QUIET.with(|q| q.get()) {
            return;
        }
        let msg = p.downcast_ref::<&'static str>().map(|s| s.to_string()).or_else(|| p.downcast_ref::<String>().cloned()).unwrap_or_default();
        if is_leaked_guard_panic(&msg) {
            return;
        }
        default(info);
    }));
}

thread_local! {
    static QUIET: std::cell::Cell<bool> = const { std::cell::Cell::new(false) };
}
/// Silence the default hook (expected documented panics, unexpected panics that become verdicts).
pub fn set_quiet(q: bool) {
    QUIET.with(|c| c.set(q));
}
