//! The one PRNG every choice of a run is drawn from (SplitMix64 seeding xoshiro256**).
//! No external crate: the stream must never change under us.

#[derive(Clone, Debug)]
pub struct Rng {
    s: [u64; 4],
    /// number of draws so far (reported in logs; never influences anything)
    pub draws: u64,
}

pub fn splitmix(x: u64) -> u64 {
    let mut z = x.wrapping_add(0x9E3779B97F4A7C15);
    z = (z ^ (z >> 30)).wrapping_mul(0xBF58476D1CE4E5B9);
    z = (z ^ (z >> 27)).wrapping_mul(0x94D049BB133111EB);
    z ^ (z >> 31)
}

/// FNV-1a, used to mix a property id into the seed and for event-log digests.
pub fn fnv(bytes: &[u8]) -> u64 {
    let mut h: u64 = 0xcbf29ce484222325;
    for b in bytes {
        h ^= *b as u64;
        h = h.wrapping_mul(0x100000001b3);
    }
    h
}

pub fn mix(h: u64, x: u64) -> u64 {
    splitmix(h ^ x.wrapping_mul(0x9E3779B97F4A7C15))
}

/// Seed of run `index` of property `prop` under `VERIF_SEED = seed`.
pub fn run_seed(seed: u64, prop: &str, index: u64) -> u64 {
    splitmix(seed ^ fnv(prop.as_bytes()) ^ index.wrapping_mul(0x9E3779B97F4A7C15))
}

impl Rng {
    pub fn new(seed: u64) -> Rng {
        let mut x = seed;
        let mut s = [0u64; 4];
        for v in s.iter_mut() {
            x = x.wrapping_add(0x9E3779B97F4A7C15);
            *v = splitmix(x);
        }
        if s == [0; 4] {
            s[0] = 1;
        }
        Rng { s, draws: 0 }
    }

    pub fn next(&mut self) -> u64 {
        self.draws += 1;
        let r = self.s[1].wrapping_mul(5).rotate_left(7).wrapping_mul(9);
        let t = self.s[1] << 17;
        self.s[2] ^= self.s[0];
        self.s[3] ^= self.s[1];
        self.s[1] ^= self.s[2];
        self.s[0] ^= self.s[3];
        self.s[2] ^= t;
        self.s[3] = self.s[3].rotate_left(45);
        r
    }

    /// uniform in 0..n (n > 0); the tiny modulo bias is irrelevant here
    pub fn below(&mut self, n: usize) -> usize {
        debug_assert!(n > 0);
        (self.next() % n as u64) as usize
    }

    /// inclusive range
    pub fn range(&mut self, lo: usize, hi: usize) -> usize {
        lo + self.below(hi - lo + 1)
    }

    pub fn chance(&mut self, num: usize, den: usize) -> bool {
        self.below(den) < num
    }

    pub fn pick<T: Copy>(&mut self, xs: &[T]) -> T {
        xs[self.below(xs.len())]
    }

    /// index drawn with the given weights (at least one weight must be non-zero)
    pub fn weighted(&mut self, w: &[u32]) -> usize {
        let total: u64 = w.iter().map(|x| *x as u64).sum();
        debug_assert!(total > 0);
        let mut r = self.next() % total;
        for (i, x) in w.iter().enumerate() {
            if r < *x as u64 {
                return i;
            }
            r -= *x as u64;
        }
        w.len() - 1
    }
}
