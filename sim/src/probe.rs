//! C13 probe runner: the simulator specialised to ONE route to write access.
//!
//! A probe (a `#![forbid(unsafe_code)]` binary under /verif/sim/probes) supplies a node type and
//! the route under test as safe code; if rustc accepts it, this module runs it through seeded
//! schedules that place the adoption at every point of a collection cycle (parent unmarked,
//! queued, fully traced; child fresh; collector asleep, marking, marked, sweeping) and then
//! settles, under the C01 oracle: everything safe code can still reach must be intact.

use std::collections::BTreeMap;
use std::marker::PhantomData;

use gc_arena::arena::CollectionPhase as Phase;
use gc_arena::{Arena, Collect, Gc, Mutation, Rootable, collect::Trace, metrics::Pacing};

use crate::rng::{self, Rng};
use crate::seam;
use crate::tok::{self, Id};

pub use crate::tok::Tok;

pub trait Probe: 'static {
    const NAME: &'static str;
    /// the route lets an object share interior state with another one (Rc / Arc / references)
    const SHARES: bool = false;
    type Node<'gc>: Collect<'gc> + 'gc;
    fn make<'gc>(mc: &Mutation<'gc>, id: Id) -> Gc<'gc, Self::Node<'gc>>;
    /// a node that shares the interior of `with` as far as the route allows (default: independent)
    fn make_shared<'gc>(mc: &Mutation<'gc>, id: Id, _with: Gc<'gc, Self::Node<'gc>>) -> Gc<'gc, Self::Node<'gc>> {
        Self::make(mc, id)
    }
    /// THE ROUTE UNDER TEST, in safe code: make `parent` (or what it shares) hold `child`
    fn adopt<'gc>(mc: &Mutation<'gc>, parent: Gc<'gc, Self::Node<'gc>>, child: Gc<'gc, Self::Node<'gc>>);
    /// what safe code can read back from `n` through the slot `adopt` writes
    fn adopted<'gc>(n: Gc<'gc, Self::Node<'gc>>) -> Option<Gc<'gc, Self::Node<'gc>>>;
    /// the reference route (`RefLock` slot written through `Gc::write(..).unlock()`)
    fn adopt_ref<'gc>(mc: &Mutation<'gc>, parent: Gc<'gc, Self::Node<'gc>>, child: Gc<'gc, Self::Node<'gc>>);
    fn adopted_ref<'gc>(n: Gc<'gc, Self::Node<'gc>>) -> Option<Gc<'gc, Self::Node<'gc>>>;
    fn id<'gc>(n: Gc<'gc, Self::Node<'gc>>) -> Id;
}

pub struct PRoot<'gc, P: Probe> {
    pub slots: Vec<Option<Gc<'gc, P::Node<'gc>>>>,
}
unsafe impl<'gc, P: Probe> Collect<'gc> for PRoot<'gc, P> {
    fn trace<T: Trace<'gc>>(&self, cc: &mut T) {
        for s in &self.slots {
            cc.trace(s);
        }
    }
}
pub struct PRootable<P>(PhantomData<P>);
impl<'a, P: Probe> Rootable<'a> for PRootable<P> {
    type Root = PRoot<'a, P>;
}

#[derive(Clone, Debug, serde::Serialize, serde::Deserialize)]
pub struct ProbePlan {
    pub seed: u64,
    pub parents: usize,
    pub chain: bool,
    /// collector position before the adoption: 0 asleep, 1 k single marking units, 2 fully marked,
    /// 3 fully marked + k sweep units
    pub position: u8,
    pub k: usize,
    pub parent_pick: usize,
    pub shared: bool,
    pub grandchild: bool,
    pub settle_steps: usize,
    pub reference_route: bool,
}

#[derive(Clone, Debug, serde::Serialize, serde::Deserialize)]
pub struct ProbeOutcome {
    pub plan: ProbePlan,
    pub violation: Option<String>,
    pub nontrivial: bool,
    pub signature: u64,
}

pub fn plan_for(seed: u64) -> ProbePlan {
    let mut r = Rng::new(seed);
    ProbePlan {
        seed,
        parents: r.range(1, 3),
        chain: r.chance(1, 2),
        position: r.below(4) as u8,
        k: r.below(6),
        parent_pick: r.below(8),
        shared: r.chance(1, 2),
        grandchild: r.chance(1, 2),
        settle_steps: r.below(5),
        reference_route: false,
    }
}

fn one_unit<P: Probe>(a: &mut Arena<PRootable<P>>) {
    let m = a.metrics().clone();
    if !(m.allocation_debt() > 0.0) {
        m.adjust_debt(1048576.0);
    }
    let d = m.allocation_debt();
    m.adjust_debt(1.0 / 1024.0 - d);
    let _t = seam::track();
    a.collect_debt();
}

/// Everything safe code can reach from the root, checked before it is touched.
fn traverse<'gc, P: Probe>(root: &PRoot<'gc, P>, addr2id: &BTreeMap<usize, Id>, blocks: &BTreeMap<Id, u32>) -> Result<Vec<Id>, String> {
    let mut out = vec![];
    let mut stack: Vec<Gc<'gc, P::Node<'gc>>> = root.slots.iter().flatten().copied().collect();
    let mut seen = std::collections::BTreeSet::new();
    while let Some(g) = stack.pop() {
        let addr = Gc::as_ptr(g) as *const () as usize;
        let Some(id) = addr2id.get(&addr).copied() else { return Err(format!("reachable pointer to an address that was never allocated ({} known)", addr2id.len())) };
        if !seen.insert(id) {
            continue;
        }
        if tok::drops(id) > 0 {
            return Err(format!("value {id} is reachable from the root in safe code but has been destructed"));
        }
        if let Some(b) = blocks.get(&id) {
            if seam::active() && !seam::block(*b).live {
                return Err(format!("value {id} is reachable from the root in safe code but its block has been released"));
            }
        }
        if P::id(g) != id {
            return Err(format!("value {id} reads back id {}", P::id(g)));
        }
        out.push(id);
        if let Some(c) = P::adopted(g) {
            stack.push(c);
        }
        if let Some(c) = P::adopted_ref(g) {
            stack.push(c);
        }
    }
    Ok(out)
}

pub fn run_plan<P: Probe>(plan: &ProbePlan) -> ProbeOutcome {
    seam::begin_run(true, false);
    tok::begin_run();
    tok::set_quiet(true);
    let _p = seam::pause();
    let mut addr2id: BTreeMap<usize, Id> = BTreeMap::new();
    let mut blocks: BTreeMap<Id, u32> = BTreeMap::new();
    let mut next_id: Id = 1;
    let mut sig = rng::mix(0xC13, plan.position as u64 * 64 + plan.k as u64 * 8 + plan.shared as u64 * 2 + plan.grandchild as u64);
    let _c = seam::enter(seam::CTX_OUTSIDE, 0);
    let mut arena: Arena<PRootable<P>> = {
        let _t = seam::track();
        Arena::new(|_mc| PRoot { slots: vec![None; 3] })
    };
    let f = 0.25;
    arena.metrics().set_pacing(Pacing { sleep_factor: 0.5, min_sleep: 2, mark_factor: f, trace_factor: f, keep_factor: f, drop_factor: f / 2.0, free_factor: f / 2.0 });

    macro_rules! alloc {
        ($mc:expr, $e:expr) => {{
            let since = seam::mark();
            let id = next_id;
            next_id += 1;
            let g = {
                let _t = seam::track();
                $e(id)
            };
            let addr = Gc::as_ptr(g) as *const () as usize;
            addr2id.insert(addr, id);
            if let Some(b) = seam::attribute(addr, since, id) {
                blocks.insert(id, b);
            }
            g
        }};
    }

    // 1. parents
    {
        let _cb = seam::enter(seam::CTX_CALLBACK, 0);
        let _t = seam::track();
        arena.mutate_root(|mc, root| {
            let _p = seam::pause();
            let mut prev: Option<Gc<'_, P::Node<'_>>> = None;
            for s in 0..plan.parents {
                let g = alloc!(mc, |id| P::make(mc, id));
                match (plan.chain, prev) {
                    (true, Some(p)) => {
                        let _t = seam::track();
                        P::adopt_ref(mc, p, g)
                    }
                    _ => root.slots[s] = Some(g),
                }
                prev = Some(g);
            }
        });
    }
    // 2. put the collector somewhere
    {
        let _co = seam::enter(seam::CTX_COLLECT, 0);
        match plan.position {
            0 => {}
            1 => {
                for _ in 0..=plan.k {
                    one_unit(&mut arena);
                }
            }
            2 => {
                let _t = seam::track();
                let _ = arena.finish_marking();
            }
            _ => {
                {
                    let _t = seam::track();
                    if let Some(m) = arena.finish_marking() {
                        m.start_sweeping();
                    }
                }
                for _ in 0..plan.k {
                    one_unit(&mut arena);
                }
            }
        }
    }
    let phase = arena.collection_phase();
    sig = rng::mix(sig, crate::world::phase_code(phase) as u64);
    // 3. the adoption, through the route under test
    let mut nontrivial = false;
    let mut violation: Option<String> = None;
    {
        let _cb = seam::enter(seam::CTX_CALLBACK, 0);
        let _t = seam::track();
        let res = std::panic::catch_unwind(std::panic::AssertUnwindSafe(|| {
            arena.mutate(|mc, root| {
                let _p = seam::pause();
                let reach = match traverse::<P>(root, &addr2id, &blocks) {
                    Ok(r) => r,
                    Err(e) => return Err(e),
                };
                if reach.is_empty() {
                    return Ok(false);
                }
                // pick the parent by walking
                let mut nodes: Vec<Gc<'_, P::Node<'_>>> = vec![];
                let mut stack: Vec<Gc<'_, P::Node<'_>>> = root.slots.iter().flatten().copied().collect();
                while let Some(g) = stack.pop() {
                    if nodes.iter().any(|n| Gc::ptr_eq(*n, g)) {
                        continue;
                    }
                    nodes.push(g);
                    if let Some(c) = P::adopted(g) {
                        stack.push(c);
                    }
                    if let Some(c) = P::adopted_ref(g) {
                        stack.push(c);
                    }
                }
                let parent = nodes[plan.parent_pick % nodes.len()];
                let snap = mc.verif_snapshot();
                let pcol = snap.objects.iter().find(|o| o.addr == Gc::as_ptr(parent) as *const () as usize).map(|o| o.color).unwrap_or(9);
                let nontrivial = matches!(phase, Phase::Marking | Phase::Marked) && pcol == 3;
                let child = alloc!(mc, |id| P::make(mc, id));
                if plan.grandchild {
                    let gc = alloc!(mc, |id| P::make(mc, id));
                    let _t = seam::track();
                    P::adopt_ref(mc, child, gc);
                }
                let _t = seam::track();
                if plan.reference_route {
                    P::adopt_ref(mc, parent, child);
                } else if plan.shared && P::SHARES {
                    let b = {
                        let _p2 = seam::pause();
                        alloc!(mc, |id| P::make_shared(mc, id, parent))
                    };
                    P::adopt(mc, b, child);
                } else {
                    P::adopt(mc, parent, child);
                }
                Ok(nontrivial)
            })
        }));
        match res {
            Ok(Ok(nt)) => nontrivial = nt,
            Ok(Err(e)) => violation = Some(e),
            Err(p) => violation = Some(format!("the adoption callback panicked: {}", crate::world::panic_message(&p))),
        }
    }
    sig = rng::mix(sig, nontrivial as u64);
    // 4 + 5. settle: a few single units, then two full cycles. Before every collection call the
    // values safe code can reach are computed by traversal and shielded, so that a wrongful
    // destruction stops the run at the event instead of corrupting what is traversed next; after
    // every call the C01 oracle: everything safe code can still reach is intact.
    let steps = plan.settle_steps + 2;
    for step in 0..steps {
        if violation.is_some() {
            break;
        }
        let reach = {
            let _cb = seam::enter(seam::CTX_CALLBACK, 0);
            arena.mutate(|_mc, root| traverse::<P>(root, &addr2id, &blocks))
        };
        let reach = match reach {
            Ok(r) => r,
            Err(e) => {
                violation = Some(e);
                break;
            }
        };
        tok::set_protected(reach.clone());
        seam::set_protected(reach.iter().copied());
        let res = {
            let _co = seam::enter(seam::CTX_COLLECT, 0);
            std::panic::catch_unwind(std::panic::AssertUnwindSafe(|| {
                if step < plan.settle_steps {
                    one_unit(&mut arena);
                } else {
                    let _t = seam::track();
                    arena.finish_cycle();
                }
            }))
        };
        tok::clear_protected();
        seam::clear_protected();
        if let Some(id) = reach.iter().find(|i| tok::drops(**i) > 0) {
            violation = Some(format!("value {id} was destructed by a collection while safe code could still reach it from the root"));
        } else if let Some(id) = reach.iter().find(|i| blocks.get(i).is_some_and(|b| seam::active() && !seam::block(*b).live)) {
            violation = Some(format!("the block of value {id} was released by a collection while safe code could still reach it from the root"));
        } else if let Err(p) = res {
            violation = Some(format!("a collection call panicked: {}", crate::world::panic_message(&p)));
        }
    }
    if violation.is_none() {
        let _cb = seam::enter(seam::CTX_CALLBACK, 0);
        if let Err(e) = arena.mutate(|_mc, root| traverse::<P>(root, &addr2id, &blocks).map(|_| ())) {
            violation = Some(e);
        }
    }
    if violation.is_some() {
        std::mem::forget(arena);
    } else {
        let _ad = seam::enter(seam::CTX_ARENA_DROP, 0);
        let _t = seam::track();
        drop(arena);
    }
    let _ = seam::drain_events();
    seam::end_run();
    ProbeOutcome { plan: plan.clone(), violation, nontrivial, signature: sig }
}

/// Entry point of every probe binary:
///   probe <verif_seed> <runs> <out.json>          run the batch, write a JSON summary
///   probe --replay <plan.json>                    re-run one recorded plan (exit 1 if it violates)
pub fn main<P: Probe>() {
    tok::install_panic_hook();
    let args: Vec<String> = std::env::args().collect();
    if args.get(1).map(|s| s.as_str()) == Some("--replay") {
        let plan: ProbePlan = serde_json::from_slice(&std::fs::read(&args[2]).expect("plan file")).expect("plan json");
        let o = run_plan::<P>(&plan);
        match o.violation {
            Some(v) => {
                println!("REPLAY property=C13 probe={} violation: {v}", P::NAME);
                std::process::exit(1)
            }
            None => {
                println!("REPLAY property=C13 probe={} clean", P::NAME);
                std::process::exit(0)
            }
        }
    }
    let vseed: u64 = args.get(1).and_then(|s| s.parse().ok()).unwrap_or(1);
    let runs: u64 = args.get(2).and_then(|s| s.parse().ok()).unwrap_or(2000);
    let out = args.get(3).cloned().unwrap_or_else(|| "/dev/stdout".into());
    let mut sigs = std::collections::BTreeSet::new();
    let mut found: Option<ProbeOutcome> = None;
    let mut foreign = 0u64;
    let mut nontrivial = 0u64;
    let mut sample: Option<ProbePlan> = None;
    for i in 0..runs {
        let plan = plan_for(rng::run_seed(vseed, P::NAME, i));
        let o = run_plan::<P>(&plan);
        if o.nontrivial {
            nontrivial += 1;
            sigs.insert(o.signature);
            if sample.is_none() {
                sample = Some(plan.clone());
            }
        }
        if o.violation.is_some() {
            // differential twin: the same schedule through the reference route
            let mut twin = plan.clone();
            twin.reference_route = true;
            if run_plan::<P>(&twin).violation.is_none() {
                found = Some(o);
                break;
            }
            foreign += 1;
        }
    }
    let res = serde_json::json!({
        "probe": P::NAME,
        "runs": runs,
        "nontrivial": nontrivial,
        "distinct_nontrivial": sigs.len(),
        "foreign": foreign,
        "violation": found.as_ref().and_then(|f| f.violation.clone()),
        "plan": found.as_ref().map(|f| &f.plan),
        "sample": sample,
    });
    std::fs::write(&out, serde_json::to_vec_pretty(&res).unwrap()).unwrap();
    std::process::exit(if found.is_some() { 1 } else { 0 });
}

/// Boilerplate shared by the probes: the reference slot `r: RefLock<Option<Gc<N>>>`, `id`.
#[macro_export]
macro_rules! probe_common {
    ($N:ident) => {
        fn adopt_ref<'gc>(mc: &gc_arena::Mutation<'gc>, parent: gc_arena::Gc<'gc, $N<'gc>>, child: gc_arena::Gc<'gc, $N<'gc>>) {
            *gc_arena::barrier::unlock!(gc_arena::Gc::write(mc, parent), $N, r).borrow_mut() = Some(child);
        }
        fn adopted_ref<'gc>(n: gc_arena::Gc<'gc, $N<'gc>>) -> Option<gc_arena::Gc<'gc, $N<'gc>>> {
            *n.r.borrow()
        }
        fn id<'gc>(n: gc_arena::Gc<'gc, $N<'gc>>) -> u32 {
            n.id
        }
    };
}

/// Entry point of the single-shot probes (C19 conjuring): same command line as `main`.
pub fn simple_main(name: &str, f: impl FnOnce() -> Option<String>) {
    let args: Vec<String> = std::env::args().collect();
    let replay = args.get(1).map(|s| s.as_str()) == Some("--replay");
    let out = args.get(3).cloned().unwrap_or_else(|| "/dev/stdout".into());
    let violation = f();
    if replay {
        println!("REPLAY property=C19 probe={name} {}", violation.clone().unwrap_or_else(|| "clean".into()));
    } else {
        let res = serde_json::json!({
            "probe": name, "runs": 1, "nontrivial": 1, "distinct_nontrivial": 1, "foreign": 0,
            "violation": violation, "plan": {}, "sample": {"request": name},
        });
        std::fs::write(&out, serde_json::to_vec_pretty(&res).unwrap()).unwrap();
    }
    std::process::exit(if violation.is_some() { 1 } else { 0 });
}
