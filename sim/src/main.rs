use gcsim::{props, rng, run, tok, world::ExecCfg};

fn main() {
    tok::install_panic_hook();
    let args: Vec<String> = std::env::args().collect();
    match args.get(1).map(|s| s.as_str()) {
        Some("smoke") => {
            let prop = args.get(2).cloned().unwrap_or("C01".into());
            let n: u64 = args.get(3).and_then(|s| s.parse().ok()).unwrap_or(1000);
            let from: u64 = args.get(4).and_then(|s| s.parse().ok()).unwrap_or(0);
            let seed: u64 = std::env::var("VERIF_SEED").ok().and_then(|s| s.parse().ok()).unwrap_or(1);
            let verbose = std::env::var("VERBOSE").is_ok();
            let mut bs = run::BatchStats::default();
            let mut bad = 0;
            let t0 = std::time::Instant::now();
            for i in from..from + n {
                let rs = rng::run_seed(seed, &prop, i);
                let (g, suffix, _shape) = props::swarm(&prop, rs);
                let ecfg = ExecCfg { log: verbose, ..Default::default() };
                let o = run::run_generated(rs, &g, &ecfg, suffix);
                let nt = props::nontrivial(&prop, &o.stats.flags, &o.stats);
                bs.add(&o, nt);
                if let Some(v) = &o.viol {
                    bad += 1;
                    if bad <= 10 {
                        println!("run {i}: {} @event {}: {}", v.oracle, v.event, v.detail);
                        if verbose {
                            println!("{}", serde_json::to_string(&o.trace).unwrap());
                        }
                    }
                }
            }
            println!("runs {} bad {} in {:?}; nontrivial-distinct {} distinct {} states {} transitions {}", n, bad, t0.elapsed(), bs.sigs_nontrivial.len(), bs.sigs_all.len(), bs.states.len(), bs.transitions.len());
            println!("totals {:?}", bs.totals);
            println!("flags {:?}", bs.flags);
            println!("known {:?}", bs.known);
            if verbose {
                for (k, v) in &bs.cells {
                    println!("  {k}: {v}");
                }
            }
        }
        Some("worker") => std::process::exit(gcsim::driver::worker(&args[2..])),
        Some("check") => std::process::exit(gcsim::driver::check_cmd(&args[2..])),
        Some("replay") => std::process::exit(gcsim::driver::replay_cmd(&args[2..])),
        Some("replay-inner") => std::process::exit(gcsim::driver::replay_inner_cmd(&args[2..])),
        Some("minimize") => std::process::exit(gcsim::driver::minimize_cmd(&args[2..])),
        Some("one") => std::process::exit(gcsim::driver::one_cmd(&args[2..])),
        Some("digest") => std::process::exit(gcsim::driver::digest_cmd(&args[2..])),
        Some("miri-batch") => std::process::exit(gcsim::driver::miri_batch_cmd(&args[2..])),
        Some("stream2replay") => std::process::exit(gcsim::driver::stream2replay_cmd(&args[2..])),
        Some("scale-inner") => std::process::exit(gcsim::scale::scale_inner_cmd(&args[2..])),
        Some("selfreplay") => std::process::exit(gcsim::driver::selfreplay_cmd(&args[2..])),
        _ => {
            eprintln!("usage: sim check <ID> quick|thorough | replay <file> [-v] | one <ID> <seed> <index> | digest <ID> <seed> <from> <count> | smoke <ID> <n> [from]");
            std::process::exit(2)
        }
    }
}
