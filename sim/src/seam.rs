//! Allocator seam: a `#[global_allocator]` wrapper over `System`.
//!
//! While *tracking* is on (the harness switches it on around every call into gc-arena and off
//! inside its own closures and destructors), every block handed out is recorded with its requested
//! `Layout`, surrounded by red zones, attributed to the arena whose API call was running, and -
//! once the harness has matched it with `Gc::as_ptr` - to an object id. Every release of a recorded
//! block is checked (live, identical layout, red zones intact), stamped with the harness context
//! it happened in, poisoned and - by default - quarantined until the end of the run, so that a
//! stale read sees poison deterministically instead of a recycled object.
//!
//! All bookkeeping memory comes from `System` directly, so the seam never observes itself. The
//! simulator is single-threaded (one run at a time per process), which is what makes the
//! `static mut` state below sound.
#![allow(static_mut_refs)]

use std::alloc::{GlobalAlloc, Layout, System};

pub struct Seam;

pub const NO_ARENA: u16 = 0xFFFF;

// harness context kinds (who is running when something happens)
pub const CTX_OUTSIDE: u8 = 0;
pub const CTX_CALLBACK: u8 = 1; // inside a callback-taking API call of arena `ctx_arena`
pub const CTX_COLLECT: u8 = 2; // inside a collection method
pub const CTX_ARENA_DROP: u8 = 3; // inside the drop of the arena (or the unwind of a consuming call)
pub const CTX_HANDLE: u8 = 4; // inside a DynamicRoot handle operation outside callbacks
pub const CTX_BUILDER: u8 = 5; // inside a callback, in a builder operation that is expected to release its own block

#[derive(Clone, Copy, Debug)]
pub struct Block {
    pub user: usize,
    pub size: usize,
    pub align: usize,
    pub live: bool,
    /// arena whose API call was running when the block was allocated
    pub arena: u16,
    /// 0 = not attributed (collector-internal or builder); id + 1 = Gc block of object `id`
    pub owner: u32,
    pub free_ctx: u8,
    pub free_arena: u16,
    /// recorded only so that its release can be recognised: allocated while tracking was off
    /// (harness memory, payload buffers); no red zones, no quarantine, no oracle looks at it
    pub light: bool,
}

#[derive(Clone, Copy)]
struct FreeEnt {
    inner: usize,
    size: usize,
    align: usize,
}

#[derive(Clone, Copy, Debug, PartialEq, Eq)]
pub enum EvKind {
    Free,
    DoubleFree,
    BadLayout,
    RedZoneLo,
    RedZoneHi,
    /// a pointer nobody was ever given was released from inside a call into the crate
    BadPointer,
}

#[derive(Clone, Copy, Debug)]
pub struct SeamEvent {
    pub kind: EvKind,
    pub block: u32,
    pub ctx: u8,
    pub ctx_arena: u16,
    /// layout passed to dealloc (for BadLayout)
    pub size: usize,
    pub align: usize,
}

/// Growable array whose storage comes straight from `System`.
struct SysVec<T: Copy> {
    ptr: *mut T,
    len: usize,
    cap: usize,
}

impl<T: Copy> SysVec<T> {
    const fn new() -> Self {
        SysVec { ptr: std::ptr::null_mut(), len: 0, cap: 0 }
    }
    unsafe fn push(&mut self, v: T) {
        unsafe {
            if self.len == self.cap {
                let ncap = if self.cap == 0 { 1024 } else { self.cap * 2 };
                let nl = Layout::array::<T>(ncap).unwrap();
                let np = if self.cap == 0 {
                    System.alloc(nl)
                } else {
                    System.realloc(self.ptr as *mut u8, Layout::array::<T>(self.cap).unwrap(), nl.size())
                } as *mut T;
                if np.is_null() {
                    std::process::abort();
                }
                self.ptr = np;
                self.cap = ncap;
            }
            self.ptr.add(self.len).write(v);
            self.len += 1;
        }
    }
    #[inline]
    unsafe fn get(&self, i: usize) -> &T {
        unsafe { &*self.ptr.add(i) }
    }
    #[inline]
    unsafe fn get_mut(&mut self, i: usize) -> &mut T {
        unsafe { &mut *self.ptr.add(i) }
    }
    fn clear(&mut self) {
        self.len = 0;
    }
}

struct State {
    tracking: bool,
    quarantine: bool,
    /// released tracked blocks are kept by the seam and handed out again, most recently released
    /// first, to the next tracked request with the identical layout: deterministic, maximally
    /// eager address reuse (what identity-by-address mistakes need in order to show)
    recycle: bool,
    free: SysVec<FreeEnt>,
    ctx: u8,
    ctx_arena: u16,
    /// arena attributed to new blocks
    cur_arena: u16,
    blocks: SysVec<Block>,
    /// open-addressed index: user address -> block index + 1
    index: *mut u32,
    index_cap: usize,
    index_used: usize,
    events: SysVec<SeamEvent>,
    /// live Gc blocks (owner != 0) per arena
    live_gc: [i64; 16],
    /// a run is in progress (light recording of untracked allocations is on)
    run_active: bool,
    /// blocks released while quarantined, waiting for `end_run`
    bytes_quarantined: usize,
    /// tracked requests served from the seam's own free list in this run
    recycled: u64,
    /// object ids whose Gc block must not be released by the call in progress (C01 / C05): if it
    /// is released all the same, the event is recorded but the memory is left intact, so that
    /// the collector does not trip over poison before the harness can report the violation
    protected: SysVec<u32>,
}

static mut ST: State = State {
    tracking: false,
    quarantine: true,
    recycle: false,
    free: SysVec::new(),
    ctx: CTX_OUTSIDE,
    ctx_arena: NO_ARENA,
    cur_arena: NO_ARENA,
    blocks: SysVec::new(),
    index: std::ptr::null_mut(),
    index_cap: 0,
    index_used: 0,
    events: SysVec::new(),
    live_gc: [0; 16],
    run_active: false,
    bytes_quarantined: 0,
    recycled: 0,
    protected: SysVec::new(),
};

#[inline]
fn rz(align: usize) -> usize {
    align.max(32)
}

const RZ_BYTE: u8 = 0xA5;
const FRESH_BYTE: u8 = 0xCD;
const POISON_BYTE: u8 = 0xDD;

#[inline]
fn hash(ptr: usize) -> usize {
    (ptr >> 3).wrapping_mul(0x9E3779B97F4A7C15usize) >> 20
}

const TOMB: u32 = u32::MAX;

unsafe fn index_find(ptr: usize) -> Option<usize> {
    unsafe {
        if ST.index_cap == 0 {
            return None;
        }
        let mask = ST.index_cap - 1;
        let mut i = hash(ptr) & mask;
        loop {
            let v = *ST.index.add(i);
            if v == 0 {
                return None;
            }
            if v != TOMB && ST.blocks.get(v as usize - 1).user == ptr {
                return Some(v as usize - 1);
            }
            i = (i + 1) & mask;
        }
    }
}

/// Forget an address (its memory went back to System and may be handed out again, possibly to
/// an allocation we do not track).
unsafe fn index_remove(ptr: usize) {
    unsafe {
        if ST.index_cap == 0 {
            return;
        }
        let mask = ST.index_cap - 1;
        let mut i = hash(ptr) & mask;
        loop {
            let v = *ST.index.add(i);
            if v == 0 {
                return;
            }
            if v != TOMB && ST.blocks.get(v as usize - 1).user == ptr {
                *ST.index.add(i) = TOMB;
                return;
            }
            i = (i + 1) & mask;
        }
    }
}

unsafe fn index_rebuild(ncap: usize) {
    unsafe {
        if ST.index_cap != 0 {
            System.dealloc(ST.index as *mut u8, Layout::array::<u32>(ST.index_cap).unwrap());
        }
        let p = System.alloc_zeroed(Layout::array::<u32>(ncap).unwrap()) as *mut u32;
        if p.is_null() {
            std::process::abort();
        }
        ST.index = p;
        ST.index_cap = ncap;
        ST.index_used = 0;
        // later blocks win (an address can only repeat after its earlier block was released)
        for b in 0..ST.blocks.len {
            // released blocks whose memory went back to System are no longer ours to recognise
            let blk = ST.blocks.get(b);
            if blk.live || (!blk.light && (ST.quarantine || ST.recycle || blk.free_ctx == 0xEE)) {
                index_put(blk.user, b);
            }
        }
    }
}

unsafe fn index_put(ptr: usize, block: usize) {
    unsafe {
        let mask = ST.index_cap - 1;
        let mut i = hash(ptr) & mask;
        // an address is recycled over and over: reuse the tombstone it left, or chains grow without bound
        let mut first_tomb: Option<usize> = None;
        loop {
            let v = *ST.index.add(i);
            if v == 0 {
                match first_tomb {
                    Some(t) => *ST.index.add(t) = block as u32 + 1,
                    None => {
                        *ST.index.add(i) = block as u32 + 1;
                        ST.index_used += 1;
                    }
                }
                return;
            }
            if v == TOMB {
                if first_tomb.is_none() {
                    first_tomb = Some(i);
                }
            } else if ST.blocks.get(v as usize - 1).user == ptr {
                *ST.index.add(i) = block as u32 + 1;
                return;
            }
            i = (i + 1) & mask;
        }
    }
}

unsafe impl GlobalAlloc for Seam {
    unsafe fn alloc(&self, l: Layout) -> *mut u8 {
        unsafe {
            if !ST.tracking {
                let p = System.alloc(l);
                if ST.run_active && !p.is_null() {
                    if (ST.index_used + 1) * 2 > ST.index_cap {
                        let ncap = if ST.index_cap == 0 { 1 << 14 } else { ST.index_cap * 2 };
                        index_rebuild(ncap);
                    }
                    ST.blocks.push(Block { user: p as usize, size: l.size(), align: l.align(), live: true, arena: NO_ARENA, owner: 0, free_ctx: 0, free_arena: NO_ARENA, light: true });
                    index_put(p as usize, ST.blocks.len - 1);
                }
                return p;
            }
            let r = rz(l.align());
            let total = r + l.size() + r;
            let mut inner: *mut u8 = std::ptr::null_mut();
            if ST.recycle {
                let mut k = ST.free.len;
                while k > 0 {
                    k -= 1;
                    let f = *ST.free.get(k);
                    if f.size == l.size() && f.align == l.align() {
                        inner = f.inner as *mut u8;
                        // remove entry k, keeping the order of the rest
                        for j in k..ST.free.len - 1 {
                            *ST.free.get_mut(j) = *ST.free.get(j + 1);
                        }
                        ST.free.len -= 1;
                        ST.recycled += 1;
                        break;
                    }
                }
            }
            if inner.is_null() {
                inner = System.alloc(Layout::from_size_align_unchecked(total, l.align()));
            }
            if inner.is_null() {
                return inner;
            }
            std::ptr::write_bytes(inner, RZ_BYTE, r);
            std::ptr::write_bytes(inner.add(r), FRESH_BYTE, l.size());
            std::ptr::write_bytes(inner.add(r + l.size()), RZ_BYTE, r);
            let user = inner.add(r);
            if (ST.index_used + 1) * 2 > ST.index_cap {
                let ncap = if ST.index_cap == 0 { 1 << 14 } else { ST.index_cap * 2 };
                index_rebuild(ncap);
            }
            ST.blocks.push(Block {
                user: user as usize,
                size: l.size(),
                align: l.align(),
                live: true,
                arena: ST.cur_arena,
                owner: 0,
                free_ctx: 0,
                free_arena: NO_ARENA,
                light: false,
            });
            index_put(user as usize, ST.blocks.len - 1);
            user
        }
    }

    unsafe fn dealloc(&self, p: *mut u8, l: Layout) {
        unsafe {
            let Some(i) = index_find(p as usize) else {
                if ST.run_active && ST.tracking && matches!(ST.ctx, CTX_COLLECT | CTX_ARENA_DROP | CTX_BUILDER) {
                    // released from inside the crate, but never handed out by us: do not pass it on
                    ST.events.push(SeamEvent { kind: EvKind::BadPointer, block: u32::MAX, ctx: ST.ctx, ctx_arena: ST.ctx_arena, size: l.size(), align: l.align() });
                    return;
                }
                return System.dealloc(p, l);
            };
            if ST.blocks.get(i).light {
                ST.blocks.get_mut(i).live = false;
                index_remove(p as usize);
                return System.dealloc(p, l);
            }
            let ev = |kind| SeamEvent { kind, block: i as u32, ctx: ST.ctx, ctx_arena: ST.ctx_arena, size: l.size(), align: l.align() };
            let b = *ST.blocks.get(i);
            if !b.live {
                // released twice: the memory is quarantined (or already back with System), do nothing
                ST.events.push(ev(EvKind::DoubleFree));
                return;
            }
            if b.size != l.size() || b.align != l.align() {
                ST.events.push(ev(EvKind::BadLayout));
            }
            let r = rz(b.align);
            let inner = p.sub(r);
            for k in 0..r {
                if *inner.add(k) != RZ_BYTE {
                    ST.events.push(ev(EvKind::RedZoneLo));
                    break;
                }
            }
            for k in 0..r {
                if *p.add(b.size + k) != RZ_BYTE {
                    ST.events.push(ev(EvKind::RedZoneHi));
                    break;
                }
            }
            ST.events.push(ev(EvKind::Free));
            let bm = ST.blocks.get_mut(i);
            bm.live = false;
            bm.free_ctx = ST.ctx;
            bm.free_arena = ST.ctx_arena;
            if b.owner != 0 && (b.arena as usize) < 16 {
                ST.live_gc[b.arena as usize] -= 1;
            }
            let mut shielded = false;
            if b.owner != 0 {
                for k in 0..ST.protected.len {
                    if *ST.protected.get(k) == b.owner - 1 {
                        shielded = true;
                        break;
                    }
                }
            }
            if shielded {
                // a wrongful release: keep the bytes (and the memory) as they are
                ST.bytes_quarantined += r + b.size + r;
                if !ST.quarantine || ST.recycle {
                    ST.blocks.get_mut(i).free_ctx = 0xEE; // still to be given back at the next begin_run
                }
                return;
            }
            std::ptr::write_bytes(p, POISON_BYTE, b.size);
            if ST.recycle {
                ST.free.push(FreeEnt { inner: inner as usize, size: b.size, align: b.align });
            } else if ST.quarantine {
                ST.bytes_quarantined += r + b.size + r;
            } else {
                index_remove(p as usize);
                System.dealloc(inner, Layout::from_size_align_unchecked(r + b.size + r, b.align));
            }
        }
    }
}

// ------------------------------------------------------------------------------------------------
// harness-facing API

/// RAII: switch tracking on (around a call into gc-arena) / off (inside harness code).
pub struct TrackGuard(bool);
impl Drop for TrackGuard {
    fn drop(&mut self) {
        unsafe { ST.tracking = self.0 }
    }
}
#[inline]
pub fn track() -> TrackGuard {
    unsafe {
        let prev = ST.tracking;
        ST.tracking = !cfg!(miri);
        TrackGuard(prev)
    }
}
#[inline]
pub fn pause() -> TrackGuard {
    unsafe {
        let prev = ST.tracking;
        ST.tracking = false;
        TrackGuard(prev)
    }
}

/// RAII: harness context (who is running) + arena new blocks are attributed to.
pub struct CtxGuard(u8, u16, u16);
impl Drop for CtxGuard {
    fn drop(&mut self) {
        unsafe {
            ST.ctx = self.0;
            ST.ctx_arena = self.1;
            ST.cur_arena = self.2;
        }
    }
}
pub fn enter(ctx: u8, arena: u16) -> CtxGuard {
    unsafe {
        let g = CtxGuard(ST.ctx, ST.ctx_arena, ST.cur_arena);
        ST.ctx = ctx;
        ST.ctx_arena = arena;
        ST.cur_arena = arena;
        g
    }
}
/// Change the context kind in place (restored by the enclosing `CtxGuard`).
pub fn set_ctx_kind(kind: u8) {
    unsafe { ST.ctx = kind }
}
pub fn ctx() -> (u8, u16) {
    unsafe { (ST.ctx, ST.ctx_arena) }
}

/// Start of a run: everything released so far leaves the table; blocks still live stay known
/// (they may be released later, e.g. a leaked arena of an aborted run never is).
pub fn begin_run(quarantine: bool, recycle: bool) {
    unsafe {
        let _p = pause();
        // memory the seam kept for reuse goes back first (the table below no longer owns it)
        for k in 0..ST.free.len {
            let f = *ST.free.get(k);
            let r = rz(f.align);
            System.dealloc(f.inner as *mut u8, Layout::from_size_align_unchecked(r + f.size + r, f.align));
        }
        ST.free.clear();
        ST.recycled = 0;
        // give quarantined memory back and compact the table to the live blocks
        let mut kept = 0usize;
        for i in 0..ST.blocks.len {
            let b = *ST.blocks.get(i);
            if b.live {
                let mut b2 = b;
                // survivors of earlier runs no longer count for anything
                b2.owner = 0;
                b2.arena = NO_ARENA;
                *ST.blocks.get_mut(kept) = b2;
                kept += 1;
            } else if !b.light && ((ST.quarantine && !ST.recycle) || b.free_ctx == 0xEE) {
                let r = rz(b.align);
                System.dealloc((b.user - r) as *mut u8, Layout::from_size_align_unchecked(r + b.size + r, b.align));
            }
        }
        ST.blocks.len = kept;
        ST.bytes_quarantined = 0;
        ST.quarantine = quarantine && !recycle;
        ST.recycle = recycle && !cfg!(miri);
        ST.protected.clear();
        ST.events.clear();
        ST.live_gc = [0; 16];
        let mut cap = 1 << 14;
        while cap < kept * 4 {
            cap *= 2;
        }
        index_rebuild(cap);
        ST.ctx = CTX_OUTSIDE;
        ST.ctx_arena = NO_ARENA;
        ST.cur_arena = NO_ARENA;
        ST.run_active = !cfg!(miri);
    }
}

/// Ids whose Gc blocks the call about to be made must not release.
pub fn set_protected(ids: impl Iterator<Item = u32>) {
    unsafe {
        ST.protected.clear();
        for i in ids {
            ST.protected.push(i);
        }
    }
}
pub fn clear_protected() {
    unsafe { ST.protected.clear() }
}

/// End of a run: stop recording the harness's own allocations (what the driver accumulates
/// between runs must not pile up in the table).
pub fn end_run() {
    unsafe {
        ST.run_active = false;
        ST.tracking = false;
    }
}

/// Tracked requests that were given a just-released address in this run.
pub fn recycled() -> u64 {
    unsafe { ST.recycled }
}

/// Number of blocks recorded so far in this run (a position in the allocation log).
pub fn mark() -> u32 {
    unsafe { ST.blocks.len as u32 }
}

pub fn block(i: u32) -> Block {
    unsafe { *ST.blocks.get(i as usize) }
}

/// Attribute the block that contains `addr`, among unattributed live blocks recorded since
/// `since`, to Gc object `id`. Returns the block index.
pub fn attribute(addr: usize, since: u32, id: u32) -> Option<u32> {
    unsafe {
        let mut i = ST.blocks.len;
        while i > since as usize {
            i -= 1;
            let b = ST.blocks.get_mut(i);
            if b.live && !b.light && b.owner == 0 && b.user <= addr && addr <= b.user + b.size {
                b.owner = id + 1;
                if (b.arena as usize) < 16 {
                    ST.live_gc[b.arena as usize] += 1;
                }
                return Some(i as u32);
            }
        }
        None
    }
}

/// Live attributed Gc blocks of an arena.
pub fn live_gc_blocks(arena: u16) -> i64 {
    unsafe { ST.live_gc[arena as usize] }
}

/// Live recorded blocks (of any kind) that were allocated under `arena`.
pub fn outstanding(arena: u16) -> Vec<u32> {
    let _p = pause();
    let mut v = vec![];
    unsafe {
        for i in 0..ST.blocks.len {
            let b = ST.blocks.get(i);
            if b.live && !b.light && b.arena == arena {
                v.push(i as u32);
            }
        }
    }
    v
}

/// Events recorded since the last call.
pub fn drain_events() -> Vec<SeamEvent> {
    let _p = pause();
    unsafe {
        let mut v = Vec::with_capacity(ST.events.len);
        for i in 0..ST.events.len {
            v.push(*ST.events.get(i));
        }
        ST.events.clear();
        v
    }
}

pub fn has_events() -> bool {
    unsafe { ST.events.len != 0 }
}

pub fn active() -> bool {
    !cfg!(miri)
}

/// Check the red zones of a live block without releasing it.
pub fn redzones_intact(i: u32) -> bool {
    unsafe {
        let b = *ST.blocks.get(i as usize);
        if !b.live {
            return true;
        }
        let r = rz(b.align);
        let p = b.user as *const u8;
        for k in 0..r {
            if *p.sub(r).add(k) != RZ_BYTE || *p.add(b.size + k) != RZ_BYTE {
                return false;
            }
        }
        true
    }
}
