//! Shadow model: the only reference model of the heap is a reachability graph, updated op by op.
//! There is deliberately no model of colours, queues or work order.

use std::collections::{BTreeMap, BTreeSet};

use crate::ops::*;

#[derive(Clone, Debug)]
pub struct Obj {
    pub kind: Kind,
    pub arena: Aid,
    pub strong: Vec<Option<Id>>,
    pub weak: Vec<Option<Id>>,
    /// tokens whose destruction is the destruction of this object's value (empty: no destructor)
    pub toks: Vec<Id>,
    /// value address; used only for identity comparisons, never for a decision or a log line
    pub addr: usize,
    /// allocator-seam block index
    pub block: Option<u32>,
    /// destructor observed (for token-less objects: inferred from release)
    pub destructed: bool,
    /// block observed released
    pub released: bool,
    pub born_event: u32,
    /// layout-family leaf: (table index, runtime length, pattern seed, value size, value align)
    pub lay: Option<(u8, usize, u64, usize, usize)>,
    /// per strong slot: the representation the pointer was stored in (C19)
    pub conv: Vec<Conv>,
    /// its destructor unwound (injected fault): if that happened while the sweep was freeing it,
    /// the crate leaks its block by construction - accounted for, narrowly, by the oracles
    pub drop_faulted: bool,
    /// Leaky only: its write guard was leaked - no borrow of it can succeed again
    pub leaked: bool,
}

#[derive(Clone, Debug, Default)]
pub struct Group {
    /// SetInner object the slot lives in
    pub inner: Id,
    pub obj: Id,
    /// live handles (original + clones)
    pub count: u32,
    /// index of the edge in inner.strong
    pub edge: usize,
}

#[derive(Clone, Debug)]
pub struct ArenaShadow {
    pub alive: bool,
    pub root_is_b: bool,
    pub root_strong: Vec<Option<Id>>,
    pub root_weak: Vec<Option<Id>>,
    pub root_set_inner: Id,
    /// the shared object of the root's ZstCache
    pub root_zst: Option<Id>,
    /// objects resurrected in the current cycle (cleared when the arena is next observed Sleeping)
    pub resurrected: BTreeSet<Id>,
    pub pacing: PacingSpec,
}

#[derive(Clone, Debug, Default)]
pub struct Shadow {
    pub objs: BTreeMap<Id, Obj>,
    pub arenas: Vec<Option<ArenaShadow>>,
    pub groups: BTreeMap<u32, Group>,
    /// handle id -> group id
    pub handles: BTreeMap<Hid, u32>,
    pub next_id: Id,
    pub next_hid: Hid,
    pub next_group: u32,
}

impl Shadow {
    pub fn arena(&self, a: Aid) -> &ArenaShadow {
        self.arenas[a as usize].as_ref().unwrap()
    }
    pub fn arena_mut(&mut self, a: Aid) -> &mut ArenaShadow {
        self.arenas[a as usize].as_mut().unwrap()
    }
    pub fn arena_alive(&self, a: Aid) -> bool {
        self.arenas.get(a as usize).and_then(|x| x.as_ref()).is_some_and(|x| x.alive)
    }

    /// Strong closure of root ∪ live stash slots ∪ resurrected objects of arena `a`.
    pub fn reach(&self, a: Aid) -> BTreeSet<Id> {
        let ar = self.arena(a);
        let mut seen = BTreeSet::new();
        let mut stack: Vec<Id> = ar.root_strong.iter().flatten().copied().collect();
        stack.push(ar.root_set_inner);
        stack.extend(ar.root_zst);
        stack.extend(ar.resurrected.iter().copied());
        while let Some(i) = stack.pop() {
            // (a bare root has no set object: its id names nothing)
            let Some(o) = self.objs.get(&i) else { continue };
            if !seen.insert(i) {
                continue;
            }
            for c in o.strong.iter().flatten() {
                stack.push(*c);
            }
        }
        seen
    }

    /// Strong closure of one object.
    pub fn closure(&self, from: Id) -> BTreeSet<Id> {
        let mut seen = BTreeSet::new();
        let mut stack = vec![from];
        while let Some(i) = stack.pop() {
            if !seen.insert(i) {
                continue;
            }
            if let Some(o) = self.objs.get(&i) {
                for c in o.strong.iter().flatten() {
                    stack.push(*c);
                }
            }
        }
        seen
    }

    /// Objects not in `reach` that a weak pointer held by the root or by a member of `reach`
    /// refers to: exactly the blocks that must survive (as shells at least) besides `reach`.
    pub fn weak_targets(&self, a: Aid, reach: &BTreeSet<Id>) -> BTreeSet<Id> {
        let ar = self.arena(a);
        let mut t = BTreeSet::new();
        for w in ar.root_weak.iter().flatten() {
            if !reach.contains(w) {
                t.insert(*w);
            }
        }
        for i in reach {
            if let Some(o) = self.objs.get(i) {
                // a destructed holder no longer holds anything
                if o.destructed {
                    continue;
                }
                for w in o.weak.iter().flatten() {
                    if !reach.contains(w) {
                        t.insert(*w);
                    }
                }
            }
        }
        t
    }

    pub fn holder_strong(&self, a: Aid, h: Holder, slot: usize) -> Option<Option<Id>> {
        match h {
            Holder::Root => self.arena(a).root_strong.get(slot).copied(),
            Holder::Obj(i) => self.objs.get(&i).and_then(|o| o.strong.get(slot).copied()),
        }
    }
    pub fn holder_weak(&self, a: Aid, h: Holder, slot: usize) -> Option<Option<Id>> {
        match h {
            Holder::Root => self.arena(a).root_weak.get(slot).copied(),
            Holder::Obj(i) => self.objs.get(&i).and_then(|o| o.weak.get(slot).copied()),
        }
    }
    pub fn set_strong(&mut self, a: Aid, h: Holder, slot: usize, v: Option<Id>) {
        match h {
            Holder::Root => self.arena_mut(a).root_strong[slot] = v,
            Holder::Obj(i) => self.objs.get_mut(&i).unwrap().strong[slot] = v,
        }
    }
    pub fn set_weak(&mut self, a: Aid, h: Holder, slot: usize, v: Option<Id>) {
        match h {
            Holder::Root => self.arena_mut(a).root_weak[slot] = v,
            Holder::Obj(i) => self.objs.get_mut(&i).unwrap().weak[slot] = v,
        }
    }

    /// The SetInner object of a set, if the set exists.
    pub fn set_inner(&self, a: Aid, s: SetRef) -> Option<Id> {
        match s {
            SetRef::Root => Some(self.arena(a).root_set_inner).filter(|i| self.objs.contains_key(i)),
            SetRef::Holder(h) => self.objs.get(&h).filter(|o| o.kind == Kind::SetHolder && o.arena == a).and_then(|o| o.strong[0]),
        }
    }

    pub fn add_group(&mut self, inner: Id, obj: Id) -> u32 {
        let g = self.next_group;
        self.next_group += 1;
        let io = self.objs.get_mut(&inner).unwrap();
        io.strong.push(Some(obj));
        let edge = io.strong.len() - 1;
        self.groups.insert(g, Group { inner, obj, count: 1, edge });
        g
    }

    /// A handle of group `g` was dropped.
    pub fn dec_group(&mut self, g: u32) {
        let gr = self.groups.get_mut(&g).unwrap();
        gr.count -= 1;
        if gr.count == 0 {
            let (inner, edge) = (gr.inner, gr.edge);
            if let Some(io) = self.objs.get_mut(&inner) {
                io.strong[edge] = None;
            }
        }
    }

    /// Copy of the shadow in which arena `a` has no resurrected set (what-if reachability).
    pub fn clone_arena_without_resurrected(&self, a: Aid) -> Shadow {
        let mut s = self.clone();
        s.arena_mut(a).resurrected.clear();
        s
    }
    /// Copy of the shadow in which no stash slot of arena `a` holds anything.
    pub fn clone_arena_without_stash(&self, a: Aid) -> Shadow {
        let mut s = self.clone();
        let inners: Vec<Id> = s.objs.iter().filter(|(_, o)| o.arena == a && o.kind == Kind::SetInner).map(|(i, _)| *i).collect();
        for i in inners {
            for e in s.objs.get_mut(&i).unwrap().strong.iter_mut() {
                *e = None;
            }
        }
        s
    }

    /// The arena's graph with the outgoing strong edges of every object whose kind satisfies `pred` removed.
    pub fn clone_arena_without_edges_of(&self, a: Aid, pred: impl Fn(Kind) -> bool) -> Shadow {
        let mut s = self.clone();
        for o in s.objs.values_mut() {
            if o.arena == a && pred(o.kind) {
                for e in o.strong.iter_mut() {
                    *e = None;
                }
            }
        }
        s
    }

    pub fn arena_objs(&self, a: Aid) -> impl Iterator<Item = (&Id, &Obj)> {
        self.objs.iter().filter(move |(_, o)| o.arena == a)
    }
}
