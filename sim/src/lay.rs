//! Layout family (C17): a macro-generated grid of value layouts - sized values with every
//! alignment from 1 to 4096 and sizes 0..5 x align, slices / str / slice-with-header over a grid of
//! element and header layouts including zero-sized ones, runtime lengths 0..17. Every entry is
//! reached through a table of monomorphic functions, so the engine handles them type-erased.
//!
//! Nothing here knows the size or position of the collector's header.

use gc_arena::{Gc, GcSlice, GcSliceWithHeader, GcStr, GcThinSlice, GcThinSliceWithHeader, GcThinStr, Mutation, SliceWithHeader, Static};

pub fn pat(seed: u64, i: usize) -> u8 {
    let x = crate::rng::splitmix(seed ^ (i as u64).wrapping_mul(0x9E3779B97F4A7C15));
    (x >> 24) as u8
}
fn pat_ascii(seed: u64, i: usize) -> u8 {
    b'a' + pat(seed, i) % 26
}

#[derive(Clone, Copy, Debug, PartialEq, Eq)]
pub enum LayClass {
    Sized,
    Slice,
    Str,
    Swh,
}

/// What one allocation of a layout entry looks like to the engine.
pub struct Made<'gc> {
    pub ptr: Gc<'gc, ()>,
    /// address and extent of the value (what `size_of_val` / `align_of_val` of the fat pointer say)
    pub addr: usize,
    pub size: usize,
    pub align: usize,
    /// round-trip checks made at allocation (as_thin / as_fat / as_ptr / from_ptr): first failure
    pub roundtrip: Option<String>,
}

pub struct LayVt {
    pub name: &'static str,
    pub class: LayClass,
    /// allocate with runtime length `len` (ignored for sized entries), fill the whole value
    /// extent with the pattern of `seed`
    pub make: for<'gc> fn(&Mutation<'gc>, usize, u64) -> Made<'gc>,
    /// re-read an object stored as an erased thin pointer: re-fatten it from the metadata the
    /// collector keeps, compare length / extent and the byte pattern
    pub check: for<'gc> fn(Gc<'gc, ()>, usize, u64) -> Result<(), String>,
}

unsafe fn fill(p: *mut u8, n: usize, seed: u64, ascii: bool) {
    for i in 0..n {
        unsafe { p.add(i).write(if ascii { pat_ascii(seed, i) } else { pat(seed, i) }) };
    }
}
unsafe fn verify(p: *const u8, n: usize, seed: u64, ascii: bool) -> Result<(), String> {
    for i in 0..n {
        let want = if ascii { pat_ascii(seed, i) } else { pat(seed, i) };
        let got = unsafe { p.add(i).read() };
        if got != want {
            return Err(format!("byte {i} of {n} reads {got:#04x}, was written as {want:#04x}"));
        }
    }
    Ok(())
}

// ------------------------------------------------------------------------------------------------
// sized values

macro_rules! aligned_types {
    ($( $name:ident = $a:literal ),*) => {
        $(
            #[derive(Clone, Copy)]
            #[repr(C, align($a))]
            pub struct $name<const N: usize>(pub [u8; N]);
        )*
    };
}
aligned_types!(A1 = 1, A2 = 2, A4 = 4, A8 = 8, A16 = 16, A32 = 32, A64 = 64, A128 = 128, A1024 = 1024, A4096 = 4096);

fn make_sized<'gc, T: 'static + Copy>(mc: &Mutation<'gc>, _len: usize, seed: u64, zero: T) -> Made<'gc> {
    let g: Gc<'gc, T> = {
        let _t = crate::seam::track();
        Gc::new_static(mc, zero)
    };
    let p = Gc::as_ptr(g);
    let (size, align) = (size_of::<T>(), align_of::<T>());
    unsafe { fill(p as *mut u8, size, seed, false) };
    let mut roundtrip = None;
    let back: Gc<'gc, T> = unsafe { Gc::from_ptr(p) };
    if !Gc::ptr_eq(back, g) || Gc::as_ptr(back) != p {
        roundtrip = Some("as_ptr -> from_ptr does not give back the same pointer".to_string());
    }
    let thin = Gc::as_thin(g);
    if Gc::as_ptr(Gc::as_fat(thin)) != p {
        roundtrip = Some("as_thin -> as_fat changes the address of a sized value".to_string());
    }
    Made { ptr: Gc::erase(g), addr: p as usize, size, align, roundtrip }
}
fn check_sized<'gc, T: 'static>(ptr: Gc<'gc, ()>, _len: usize, seed: u64) -> Result<(), String> {
    let g: Gc<'gc, T> = unsafe { Gc::cast::<T>(ptr) };
    let p = Gc::as_ptr(g);
    if (p as usize) % align_of::<T>() != 0 {
        return Err(format!("address is not aligned to {}", align_of::<T>()));
    }
    unsafe { verify(p as *const u8, size_of::<T>(), seed, false) }
}

macro_rules! sized_entry {
    ($t:ident, $n:literal) => {
        LayVt {
            name: concat!(stringify!($t), "x", stringify!($n)),
            class: LayClass::Sized,
            make: |mc, len, seed| make_sized::<$t<$n>>(mc, len, seed, $t([0u8; $n])),
            check: |p, len, seed| check_sized::<$t<$n>>(p, len, seed),
        }
    };
}

// ------------------------------------------------------------------------------------------------
// slices, str

fn make_slice<'gc, E: 'static + Copy>(mc: &Mutation<'gc>, len: usize, seed: u64, zero: E, via_builder: bool) -> Made<'gc> {
    let g: GcSlice<'gc, E> = {
        let _t = crate::seam::track();
        if via_builder {
            gc_arena::GcSliceBuilder::<Static<E>>::new(len).unwrap_static().write_slice_with(mc, |_| zero)
        } else {
            let v = {
                let _p = crate::seam::pause();
                vec![zero; len]
            };
            let g = Gc::new_slice_static(mc, &v);
            let _p = crate::seam::pause();
            drop(v);
            g
        }
    };
    let p: *const [E] = Gc::as_ptr(g);
    let (size, align) = (size_of::<E>() * len, align_of::<E>());
    unsafe { fill(p as *const E as *mut u8, size, seed, false) };
    let mut roundtrip = None;
    if g.len() != len {
        roundtrip = Some(format!("allocated with length {len}, reads length {}", g.len()));
    }
    let thin: GcThinSlice<'gc, E> = Gc::as_thin(g);
    let fat = Gc::as_fat(thin);
    if fat.len() != len || Gc::as_ptr(fat) as *const E != p as *const E {
        roundtrip = Some(format!("as_thin -> as_fat: length {} address equal {}", fat.len(), Gc::as_ptr(fat) as *const E == p as *const E));
    }
    if thin.len() != len {
        roundtrip = Some(format!("a thin slice pointer dereferences to length {}", thin.len()));
    }
    let back: GcSlice<'gc, E> = unsafe { Gc::from_ptr_with_kind(p) };
    if back.len() != len || !Gc::ptr_eq(back, g) {
        roundtrip = Some("as_ptr -> from_ptr_with_kind does not give back the same slice".to_string());
    }
    Made { ptr: Gc::erase(g), addr: p as *const E as usize, size, align, roundtrip }
}
fn check_slice<'gc, E: 'static>(ptr: Gc<'gc, ()>, len: usize, seed: u64) -> Result<(), String> {
    // the object is stored as an erased thin address: re-fatten it from the collector's metadata
    let thin: GcThinSlice<'gc, E> = unsafe { Gc::from_thin_ptr_with_kind(Gc::as_ptr(ptr)) };
    let fat: GcSlice<'gc, E> = Gc::as_fat(thin);
    if fat.len() != len {
        return Err(format!("re-fattened slice has length {}, allocated with {len}", fat.len()));
    }
    let p = Gc::as_ptr(fat) as *const E;
    if p as usize != Gc::as_ptr(ptr) as usize {
        return Err("re-fattened slice has a different address".to_string());
    }
    if (p as usize) % align_of::<E>() != 0 {
        return Err(format!("address is not aligned to {}", align_of::<E>()));
    }
    unsafe { verify(p as *const u8, size_of::<E>() * len, seed, false) }
}

macro_rules! slice_entry {
    ($name:literal, $e:ty, $zero:expr, $builder:literal) => {
        LayVt {
            name: $name,
            class: LayClass::Slice,
            make: |mc, len, seed| make_slice::<$e>(mc, len, seed, $zero, $builder),
            check: |p, len, seed| check_slice::<$e>(p, len, seed),
        }
    };
}

fn make_str<'gc>(mc: &Mutation<'gc>, len: usize, seed: u64) -> Made<'gc> {
    let s: String = {
        let _p = crate::seam::pause();
        (0..len).map(|i| pat_ascii(seed, i) as char).collect()
    };
    let g: GcStr<'gc> = {
        let _t = crate::seam::track();
        Gc::new_str(mc, &s)
    };
    let p: *const str = Gc::as_ptr(g);
    let mut roundtrip = None;
    if &*g != s.as_str() {
        roundtrip = Some("a new str does not read back what was copied into it".to_string());
    }
    let thin: GcThinStr<'gc> = Gc::as_thin(g);
    if Gc::as_fat(thin).len() != len || thin.len() != len || Gc::as_ptr(Gc::as_fat(thin)) as *const u8 != p as *const u8 {
        roundtrip = Some("as_thin -> as_fat changes a str".to_string());
    }
    {
        let _p = crate::seam::pause();
        drop(s);
    }
    Made { ptr: Gc::erase(g), addr: p as *const u8 as usize, size: len, align: 1, roundtrip }
}
fn check_str<'gc>(ptr: Gc<'gc, ()>, len: usize, seed: u64) -> Result<(), String> {
    let thin: GcThinStr<'gc> = unsafe { Gc::from_thin_ptr_with_kind(Gc::as_ptr(ptr)) };
    let fat: GcStr<'gc> = Gc::as_fat(thin);
    if fat.len() != len {
        return Err(format!("re-fattened str has length {}, allocated with {len}", fat.len()));
    }
    unsafe { verify(Gc::as_ptr(fat) as *const u8, len, seed, true) }
}

// ------------------------------------------------------------------------------------------------
// slice with header

fn swh_extent<H, E>(len: usize) -> (usize, usize) {
    // computed from the language's own rules for a repr(C) (H, [E; len]) - not from the crate
    let align = align_of::<H>().max(align_of::<E>());
    let mut off = size_of::<H>();
    off = off.div_ceil(align_of::<E>()) * align_of::<E>();
    let end = off + size_of::<E>() * len;
    (end.div_ceil(align) * align, align)
}

fn make_swh<'gc, H: 'static + Copy, E: 'static + Copy>(mc: &Mutation<'gc>, len: usize, seed: u64, h0: H, e0: E) -> Made<'gc> {
    let g: GcSliceWithHeader<'gc, H, E> = {
        let _t = crate::seam::track();
        gc_arena::GcSliceWithHeaderBuilder::<Static<H>, Static<E>>::new(len).unwrap_static_header().write_header(h0).unwrap_static_element().write_slice_with(mc, |_| e0)
    };
    let p: *const SliceWithHeader<H, E> = Gc::as_ptr(g);
    let (size, align) = (size_of_val(&*g), align_of_val(&*g));
    let mut roundtrip = None;
    let (want_size, want_align) = swh_extent::<H, E>(len);
    if size != want_size || align != want_align {
        roundtrip = Some(format!("value extent reads (size {size}, align {align}), a repr(C) header + {len} elements is (size {want_size}, align {want_align})"));
    }
    if g.slice.len() != len {
        roundtrip = Some(format!("allocated with length {len}, reads length {}", g.slice.len()));
    }
    unsafe { fill(p as *const u8 as *mut u8, size, seed, false) };
    let thin: GcThinSliceWithHeader<'gc, H, E> = Gc::as_thin(g);
    let fat = Gc::as_fat(thin);
    if fat.slice.len() != len || Gc::as_ptr(fat) as *const u8 != p as *const u8 || thin.slice.len() != len {
        roundtrip = Some("as_thin -> as_fat changes a slice with header".to_string());
    }
    Made { ptr: Gc::erase(g), addr: p as *const u8 as usize, size, align, roundtrip }
}
fn check_swh<'gc, H: 'static, E: 'static>(ptr: Gc<'gc, ()>, len: usize, seed: u64) -> Result<(), String> {
    let thin: GcThinSliceWithHeader<'gc, H, E> = unsafe { Gc::from_thin_ptr_with_kind(Gc::as_ptr(ptr) as *const H) };
    let fat: GcSliceWithHeader<'gc, H, E> = Gc::as_fat(thin);
    if fat.slice.len() != len {
        return Err(format!("re-fattened slice with header has length {}, allocated with {len}", fat.slice.len()));
    }
    let p = Gc::as_ptr(fat) as *const u8;
    let (size, align) = swh_extent::<H, E>(len);
    if (p as usize) % align != 0 {
        return Err(format!("address is not aligned to {align}"));
    }
    unsafe { verify(p, size, seed, false) }
}

macro_rules! swh_entry {
    ($name:literal, $h:ty, $hz:expr, $e:ty, $ez:expr) => {
        LayVt {
            name: $name,
            class: LayClass::Swh,
            make: |mc, len, seed| make_swh::<$h, $e>(mc, len, seed, $hz, $ez),
            check: |p, len, seed| check_swh::<$h, $e>(p, len, seed),
        }
    };
}

// ------------------------------------------------------------------------------------------------
// user-written per-value metadata (public API: GcBuilder::new_with_type_and_ptr_meta): slices whose
// length is stored in a metadata type narrower than a word, or in an odd-sized record

pub trait LenMeta: Copy + Send + 'static {
    fn from_len(len: usize) -> Self;
    fn len(self) -> usize;
}
impl LenMeta for u8 {
    fn from_len(len: usize) -> Self {
        len as u8
    }
    fn len(self) -> usize {
        self as usize
    }
}
impl LenMeta for u16 {
    fn from_len(len: usize) -> Self {
        len as u16
    }
    fn len(self) -> usize {
        self as usize
    }
}
impl LenMeta for u32 {
    fn from_len(len: usize) -> Self {
        len as u32
    }
    fn len(self) -> usize {
        self as usize
    }
}
/// a 12-byte record: the length is not the first field
#[derive(Clone, Copy)]
#[repr(C)]
pub struct Rec12 {
    tag_a: u32,
    len: u32,
    tag_b: u32,
}
impl LenMeta for Rec12 {
    fn from_len(len: usize) -> Self {
        Rec12 { tag_a: 0xA5A5_A5A5, len: len as u32, tag_b: 0x5A5A_5A5A }
    }
    fn len(self) -> usize {
        if self.tag_a != 0xA5A5_A5A5 || self.tag_b != 0x5A5A_5A5A { usize::MAX } else { self.len as usize }
    }
}
/// over-aligned metadata
#[derive(Clone, Copy)]
#[repr(C, align(32))]
pub struct Len32(u64);
impl LenMeta for Len32 {
    fn from_len(len: usize) -> Self {
        Len32(len as u64)
    }
    fn len(self) -> usize {
        self.0 as usize
    }
}

pub struct UserSliceMeta<L>(std::marker::PhantomData<L>);
impl<E, L: LenMeta> gc_arena::meta::PtrMeta<[E], ()> for UserSliceMeta<L> {
    type PtrMetadata = L;
    type Thin = ();
    fn to_thin(_: &'static (), fat: *const [E]) -> *const () {
        fat as *const ()
    }
    fn from_thin(_: &'static (), thin: *const (), m: L) -> *const [E] {
        std::ptr::slice_from_raw_parts(thin as *const E, m.len())
    }
}
impl<E, L: LenMeta> gc_arena::meta::AllocMeta<[E], ()> for UserSliceMeta<L> {
    fn layout(_: &'static (), m: L) -> Option<std::alloc::Layout> {
        std::alloc::Layout::array::<E>(m.len()).ok()
    }
}
type UserFat<'gc, E, L> = gc_arena::GcFat<'gc, [E], (), UserSliceMeta<L>>;
type UserThin<'gc, E, L> = gc_arena::GcThin<'gc, [E], (), UserSliceMeta<L>>;

fn make_user<'gc, E: 'static + Copy, L: LenMeta>(mc: &Mutation<'gc>, len: usize, seed: u64, zero: E) -> Made<'gc> {
    let g: UserFat<'gc, Static<E>, L> = {
        let _t = crate::seam::track();
        // SAFETY: UserSliceMeta is a correct PtrMeta / AllocMeta for [E] with unit type metadata
        unsafe {
            let mut b = gc_arena::GcBuilder::<[Static<E>], (), UserSliceMeta<L>>::new_with_type_and_ptr_meta::<gc_arena::meta::UnitTypeMeta>(L::from_len(len));
            let p = b.as_ptr() as *mut Static<E>;
            for i in 0..len {
                p.add(i).write(Static(zero));
            }
            b.assume_init(mc)
        }
    };
    let p = Gc::as_ptr(g) as *const E;
    let (size, align) = (size_of::<E>() * len, align_of::<E>());
    unsafe { fill(p as *mut u8, size, seed, false) };
    let mut roundtrip = None;
    if g.len() != len {
        roundtrip = Some(format!("allocated with length {len}, reads length {}", g.len()));
    }
    let thin: UserThin<'gc, Static<E>, L> = Gc::as_thin(g);
    let fat = Gc::as_fat(thin);
    if fat.len() != len || thin.len() != len || Gc::as_ptr(fat) as *const E != p {
        roundtrip = Some(format!("as_thin -> as_fat (user metadata of {} bytes): length {} / {}, address equal {}", size_of::<L>(), thin.len(), fat.len(), Gc::as_ptr(fat) as *const E == p));
    }
    Made { ptr: Gc::erase(g), addr: p as usize, size, align, roundtrip }
}
fn check_user<'gc, E: 'static, L: LenMeta>(ptr: Gc<'gc, ()>, len: usize, seed: u64) -> Result<(), String> {
    let thin: UserThin<'gc, Static<E>, L> = unsafe { Gc::from_thin_ptr_with_kind(Gc::as_ptr(ptr)) };
    let fat = Gc::as_fat(thin);
    if fat.len() != len {
        return Err(format!("re-fattened slice (user metadata of {} bytes) has length {}, allocated with {len}", size_of::<L>(), fat.len()));
    }
    unsafe { verify(Gc::as_ptr(fat) as *const u8, size_of::<E>() * len, seed, false) }
}
macro_rules! user_entry {
    ($name:literal, $e:ty, $zero:expr, $l:ty) => {
        LayVt {
            name: $name,
            class: LayClass::Slice,
            make: |mc, len, seed| make_user::<$e, $l>(mc, len, seed, $zero),
            check: |p, len, seed| check_user::<$e, $l>(p, len, seed),
        }
    };
}

// ------------------------------------------------------------------------------------------------
// per-type metadata that the pointer functions depend on: the collector hands `PtrMeta::from_thin`
// and `AllocMeta::layout` the `&'static M` of the (type, metadata) pair the value was allocated
// with. Two pointer-metadata types: the length is the per-type number alone (zero-sized per-value
// metadata), or the per-type number times a per-value u8. Several `TypeMeta` instantiations for the
// same value type, i.e. several vtables that differ in nothing but the metadata pointer.

pub struct Stride {
    pub n: usize,
}
macro_rules! strides {
    ($( $name:ident = $n:literal ),*) => {
        $(
            pub struct $name;
            impl gc_arena::meta::TypeMeta for $name {
                type TypeMetadata = Stride;
                const TYPE_METADATA: &'static Stride = &Stride { n: $n };
            }
        )*
    };
}
strides!(Fix0 = 0, Fix3 = 3, Fix7 = 7, Mul4 = 4, Mul1 = 1);

pub struct TypeLenMeta;
impl<E> gc_arena::meta::PtrMeta<[E], Stride> for TypeLenMeta {
    type PtrMetadata = ();
    type Thin = ();
    fn to_thin(_: &'static Stride, fat: *const [E]) -> *const () {
        fat as *const ()
    }
    fn from_thin(tm: &'static Stride, thin: *const (), _: ()) -> *const [E] {
        std::ptr::slice_from_raw_parts(thin as *const E, tm.n)
    }
}
impl<E> gc_arena::meta::AllocMeta<[E], Stride> for TypeLenMeta {
    fn layout(tm: &'static Stride, _: ()) -> Option<std::alloc::Layout> {
        std::alloc::Layout::array::<E>(tm.n).ok()
    }
}
pub struct MulLenMeta;
impl<E> gc_arena::meta::PtrMeta<[E], Stride> for MulLenMeta {
    type PtrMetadata = u8;
    type Thin = ();
    fn to_thin(_: &'static Stride, fat: *const [E]) -> *const () {
        fat as *const ()
    }
    fn from_thin(tm: &'static Stride, thin: *const (), m: u8) -> *const [E] {
        std::ptr::slice_from_raw_parts(thin as *const E, tm.n * m as usize)
    }
}
impl<E> gc_arena::meta::AllocMeta<[E], Stride> for MulLenMeta {
    fn layout(tm: &'static Stride, m: u8) -> Option<std::alloc::Layout> {
        std::alloc::Layout::array::<E>(tm.n * m as usize).ok()
    }
}

/// How a (pointer metadata type, type metadata) pair turns the requested length into per-value
/// metadata and the real length.
pub trait TmLen<TM: gc_arena::meta::TypeMeta<TypeMetadata = Stride>>: gc_arena::meta::PtrMeta<[u8], Stride> {
    fn split(len: usize) -> (<Self as gc_arena::meta::PtrMeta<[u8], Stride>>::PtrMetadata, usize);
}
impl<TM: gc_arena::meta::TypeMeta<TypeMetadata = Stride>> TmLen<TM> for TypeLenMeta {
    fn split(_len: usize) -> ((), usize) {
        ((), TM::TYPE_METADATA.n)
    }
}
impl<TM: gc_arena::meta::TypeMeta<TypeMetadata = Stride>> TmLen<TM> for MulLenMeta {
    fn split(len: usize) -> (u8, usize) {
        let n = TM::TYPE_METADATA.n;
        let m = len / n;
        (m as u8, m * n)
    }
}

fn make_tm<'gc, E, TM, P>(mc: &Mutation<'gc>, len: usize, seed: u64, zero: E) -> Made<'gc>
where
    E: 'static + Copy,
    TM: gc_arena::meta::TypeMeta<TypeMetadata = Stride>,
    P: TmLen<TM> + gc_arena::meta::AllocMeta<[Static<E>], Stride, Thin = ()> + 'static,
    P: gc_arena::meta::PtrMeta<[Static<E>], Stride, PtrMetadata = <P as gc_arena::meta::PtrMeta<[u8], Stride>>::PtrMetadata>,
{
    let (pm, len) = <P as TmLen<TM>>::split(len);
    let g: gc_arena::GcFat<'gc, [Static<E>], Stride, P> = {
        let _t = crate::seam::track();
        // SAFETY: TypeLenMeta / MulLenMeta are correct PtrMeta / AllocMeta impls for [E] with Stride
        unsafe {
            let mut b = gc_arena::GcBuilder::<[Static<E>], Stride, P>::new_with_type_and_ptr_meta::<TM>(pm);
            let p = b.as_ptr() as *mut Static<E>;
            for i in 0..len {
                p.add(i).write(Static(zero));
            }
            b.assume_init(mc)
        }
    };
    let p = Gc::as_ptr(g) as *const E;
    let (size, align) = (size_of::<E>() * len, align_of::<E>());
    unsafe { fill(p as *mut u8, size, seed, false) };
    let mut roundtrip = None;
    if g.len() != len {
        roundtrip = Some(format!("allocated with length {len} (from per-type metadata), reads length {}", g.len()));
    }
    let thin: gc_arena::GcThin<'gc, [Static<E>], Stride, P> = Gc::as_thin(g);
    let fat = Gc::as_fat(thin);
    if fat.len() != len || thin.len() != len || Gc::as_ptr(fat) as *const E != p {
        roundtrip = Some(format!("as_thin -> as_fat (length from per-type metadata): length {} / {}, expected {len}, address equal {}", thin.len(), fat.len(), Gc::as_ptr(fat) as *const E == p));
    }
    let tp = Gc::as_thin_ptr(thin);
    let back: gc_arena::GcThin<'gc, [Static<E>], Stride, P> = unsafe { Gc::from_thin_ptr_with_kind(tp) };
    if tp as usize != p as usize || back.len() != len || Gc::as_thin_ref(thin) as *const () as usize != p as usize {
        roundtrip = Some("as_thin_ptr / as_thin_ref / from_thin_ptr_with_kind do not give back the same pointer".to_string());
    }
    Made { ptr: Gc::erase(g), addr: p as usize, size, align, roundtrip }
}
fn check_tm<'gc, E, TM, P>(ptr: Gc<'gc, ()>, len: usize, seed: u64) -> Result<(), String>
where
    E: 'static,
    TM: gc_arena::meta::TypeMeta<TypeMetadata = Stride>,
    P: TmLen<TM> + gc_arena::meta::PtrMeta<[Static<E>], Stride, Thin = ()> + 'static,
{
    let (_, len) = <P as TmLen<TM>>::split(len);
    let thin: gc_arena::GcThin<'gc, [Static<E>], Stride, P> = unsafe { Gc::from_thin_ptr_with_kind(Gc::as_ptr(ptr)) };
    let fat = Gc::as_fat(thin);
    if fat.len() != len {
        return Err(format!("re-fattened slice (length from per-type metadata) has length {}, allocated with {len}", fat.len()));
    }
    if (Gc::as_ptr(fat) as *const E as usize) % align_of::<E>() != 0 {
        return Err(format!("address is not aligned to {}", align_of::<E>()));
    }
    unsafe { verify(Gc::as_ptr(fat) as *const u8, size_of::<E>() * len, seed, false) }
}
macro_rules! tm_entry {
    ($name:literal, $e:ty, $zero:expr, $tm:ty, $p:ty) => {
        LayVt {
            name: $name,
            class: LayClass::Slice,
            make: |mc, len, seed| make_tm::<$e, $tm, $p>(mc, len, seed, $zero),
            check: |p, len, seed| check_tm::<$e, $tm, $p>(p, len, seed),
        }
    };
}

// ------------------------------------------------------------------------------------------------
// a user-written AllocMeta whose layout is more than the value needs (allowed: "of sufficient size
// and alignment"): the size rounded up to a size class, the alignment raised. Whatever was
// requested at allocation has to come back at release - not the value's natural layout.

pub struct PadMeta<const ROUND: usize, const ALIGN: usize>;
impl<E, const R: usize, const A: usize> gc_arena::meta::PtrMeta<[E], ()> for PadMeta<R, A> {
    type PtrMetadata = u16;
    type Thin = ();
    fn to_thin(_: &'static (), fat: *const [E]) -> *const () {
        fat as *const ()
    }
    fn from_thin(_: &'static (), thin: *const (), m: u16) -> *const [E] {
        std::ptr::slice_from_raw_parts(thin as *const E, m as usize)
    }
}
impl<E, const R: usize, const A: usize> gc_arena::meta::AllocMeta<[E], ()> for PadMeta<R, A> {
    fn layout(_: &'static (), m: u16) -> Option<std::alloc::Layout> {
        let size = (m as usize * size_of::<E>()).next_multiple_of(R).max(R);
        std::alloc::Layout::from_size_align(size, align_of::<E>().max(A)).ok()
    }
}
fn make_pad<'gc, E: 'static + Copy, const R: usize, const A: usize>(mc: &Mutation<'gc>, len: usize, seed: u64, zero: E) -> Made<'gc> {
    let g: gc_arena::GcFat<'gc, [Static<E>], (), PadMeta<R, A>> = {
        let _t = crate::seam::track();
        // SAFETY: PadMeta is a correct PtrMeta / AllocMeta for [E] (its layout is at least the value's)
        unsafe {
            let mut b = gc_arena::GcBuilder::<[Static<E>], (), PadMeta<R, A>>::new_with_type_and_ptr_meta::<gc_arena::meta::UnitTypeMeta>(len as u16);
            let p = b.as_ptr() as *mut Static<E>;
            for i in 0..len {
                p.add(i).write(Static(zero));
            }
            b.assume_init(mc)
        }
    };
    let p = Gc::as_ptr(g) as *const E;
    // what C17 promises is the value's own alignment (the raised one is an input of the layout only)
    let (size, align) = (size_of::<E>() * len, align_of::<E>());
    unsafe { fill(p as *mut u8, size, seed, false) };
    let mut roundtrip = None;
    let thin: gc_arena::GcThin<'gc, [Static<E>], (), PadMeta<R, A>> = Gc::as_thin(g);
    let fat = Gc::as_fat(thin);
    if g.len() != len || fat.len() != len || thin.len() != len || Gc::as_ptr(fat) as *const E != p {
        roundtrip = Some(format!("as_thin -> as_fat (padded layout): length {} / {} / {}, expected {len}", g.len(), thin.len(), fat.len()));
    }
    Made { ptr: Gc::erase(g), addr: p as usize, size, align, roundtrip }
}
fn check_pad<'gc, E: 'static, const R: usize, const A: usize>(ptr: Gc<'gc, ()>, len: usize, seed: u64) -> Result<(), String> {
    let thin: gc_arena::GcThin<'gc, [Static<E>], (), PadMeta<R, A>> = unsafe { Gc::from_thin_ptr_with_kind(Gc::as_ptr(ptr)) };
    let fat = Gc::as_fat(thin);
    if fat.len() != len {
        return Err(format!("re-fattened slice (padded layout) has length {}, allocated with {len}", fat.len()));
    }
    let p = Gc::as_ptr(fat) as *const u8;
    if (p as usize) % align_of::<E>() != 0 {
        return Err(format!("address is not aligned to {}", align_of::<E>()));
    }
    unsafe { verify(p, size_of::<E>() * len, seed, false) }
}
macro_rules! pad_entry {
    ($name:literal, $e:ty, $zero:expr, $r:literal, $a:literal) => {
        LayVt {
            name: $name,
            class: LayClass::Slice,
            make: |mc, len, seed| make_pad::<$e, $r, $a>(mc, len, seed, $zero),
            check: |p, len, seed| check_pad::<$e, $r, $a>(p, len, seed),
        }
    };
}

#[derive(Clone, Copy)]
#[repr(align(64))]
pub struct Z64;
#[derive(Clone, Copy)]
#[repr(align(2))]
pub struct Z2;

pub static LAYS: &[LayVt] = &[
    sized_entry!(A1, 0), sized_entry!(A1, 1), sized_entry!(A1, 2), sized_entry!(A1, 3), sized_entry!(A1, 5),
    sized_entry!(A2, 0), sized_entry!(A2, 2), sized_entry!(A2, 4), sized_entry!(A2, 6), sized_entry!(A2, 10),
    sized_entry!(A4, 0), sized_entry!(A4, 4), sized_entry!(A4, 8), sized_entry!(A4, 12), sized_entry!(A4, 20),
    sized_entry!(A8, 0), sized_entry!(A8, 8), sized_entry!(A8, 16), sized_entry!(A8, 24), sized_entry!(A8, 40),
    sized_entry!(A16, 0), sized_entry!(A16, 16), sized_entry!(A16, 32), sized_entry!(A16, 48), sized_entry!(A16, 80),
    sized_entry!(A32, 0), sized_entry!(A32, 32), sized_entry!(A32, 64), sized_entry!(A32, 96), sized_entry!(A32, 160),
    sized_entry!(A64, 0), sized_entry!(A64, 64), sized_entry!(A64, 128), sized_entry!(A64, 192), sized_entry!(A64, 320),
    sized_entry!(A128, 0), sized_entry!(A128, 128), sized_entry!(A128, 256), sized_entry!(A128, 384), sized_entry!(A128, 640),
    sized_entry!(A1024, 0), sized_entry!(A1024, 1024), sized_entry!(A1024, 2048), sized_entry!(A1024, 3072), sized_entry!(A1024, 5120),
    sized_entry!(A4096, 0), sized_entry!(A4096, 4096), sized_entry!(A4096, 8192), sized_entry!(A4096, 12288), sized_entry!(A4096, 20480),
    // odd sizes (value padded up to its alignment by the language, written over its whole extent)
    sized_entry!(A8, 3), sized_entry!(A16, 17), sized_entry!(A64, 65), sized_entry!(A4096, 1),
    // slices: element layouts x runtime length; copy constructor and builder
    slice_entry!("[u8]", u8, 0, false), slice_entry!("[u16]", u16, 0, false), slice_entry!("[u32]", u32, 0, true), slice_entry!("[u64]", u64, 0, false),
    slice_entry!("[u128]", u128, 0, true), slice_entry!("[[u8;3]]", [u8; 3], [0; 3], false), slice_entry!("[()]", (), (), true),
    slice_entry!("[A32x32]", A32<32>, A32([0; 32]), false), slice_entry!("[A64x64]", A64<64>, A64([0; 64]), true), slice_entry!("[Z64]", Z64, Z64, false),
    slice_entry!("[A4096x4096]", A4096<4096>, A4096([0; 4096]), true),
    LayVt { name: "str", class: LayClass::Str, make: make_str, check: check_str },
    // header x element
    swh_entry!("swh<(),u8>", (), (), u8, 0), swh_entry!("swh<u8,u64>", u8, 0, u64, 0), swh_entry!("swh<u64,u8>", u64, 0, u8, 0),
    swh_entry!("swh<A32,u16>", A32<32>, A32([0; 32]), u16, 0), swh_entry!("swh<u8,A32>", u8, 0, A32<32>, A32([0; 32])),
    swh_entry!("swh<Z64,u8>", Z64, Z64, u8, 0), swh_entry!("swh<u32,()>", u32, 0, (), ()), swh_entry!("swh<(),()>", (), (), (), ()),
    swh_entry!("swh<A64,A128>", A64<64>, A64([0; 64]), A128<128>, A128([0; 128])), swh_entry!("swh<[u8;3],Z2>", [u8; 3], [0; 3], Z2, Z2),
    swh_entry!("swh<u128,u32>", u128, 0, u32, 0), swh_entry!("swh<A1024,u8>", A1024<1024>, A1024([0; 1024]), u8, 0),
    // user-written per-value metadata: narrow, odd-sized, over-aligned
    user_entry!("user<u8>[u16]", u16, 0, u8), user_entry!("user<u16>[u64]", u64, 0, u16), user_entry!("user<u32>[u8]", u8, 0, u32),
    user_entry!("user<u32>[u128]", u128, 0, u32), user_entry!("user<Rec12>[u32]", u32, 0, Rec12), user_entry!("user<Len32>[u8]", u8, 0, Len32),
    user_entry!("user<u8>[A64]", A64<64>, A64([0; 64]), u8),
    // the length comes (wholly or partly) from per-type metadata: same value type, several vtables
    tm_entry!("tm<Fix3>[u8]", u8, 0, Fix3, TypeLenMeta), tm_entry!("tm<Fix7>[u8]", u8, 0, Fix7, TypeLenMeta), tm_entry!("tm<Fix0>[u8]", u8, 0, Fix0, TypeLenMeta),
    tm_entry!("tm<Fix3>[u64]", u64, 0, Fix3, TypeLenMeta), tm_entry!("tm<Fix7>[A64]", A64<64>, A64([0; 64]), Fix7, TypeLenMeta),
    // a user AllocMeta asking for more than the value needs: size classes, raised alignment
    pad_entry!("pad<32,1>[u8]", u8, 0, 32, 1), pad_entry!("pad<64,64>[u32]", u32, 0, 64, 64), pad_entry!("pad<1,128>[u16]", u16, 0, 1, 128), pad_entry!("pad<48,16>[u64]", u64, 0, 48, 16),
    tm_entry!("tm<Mul4,u8>[u16]", u16, 0, Mul4, MulLenMeta), tm_entry!("tm<Mul1,u8>[u16]", u16, 0, Mul1, MulLenMeta), tm_entry!("tm<Mul4,u8>[A32]", A32<32>, A32([0; 32]), Mul4, MulLenMeta),
];

pub const MAX_LEN: usize = 17;
