//! The seeded scheduler: draws the next event and the next op of a callback from one PRNG,
//! looking at the shadow state so that what it asks for is meaningful. Everything it decides is
//! recorded in the trace; replay needs no PRNG.

use std::collections::VecDeque;

use gc_arena::arena::CollectionPhase as Phase;

use crate::cb::{CbView, OpGen};
use crate::ops::*;
use crate::payload::{FIELD_ONCE_SLOT, ROOT_STRONG, ROOT_WEAK};
use crate::rng::Rng;
use crate::tok;
use crate::world::World;

#[derive(Clone, Copy, Debug, PartialEq, Eq, serde::Serialize, serde::Deserialize)]
pub enum StepPolicy {
    /// every debt-driven call buys one work unit
    One,
    /// a few work units
    Few,
    /// mixed: one / few / whole phases / whole cycles
    Mixed,
    /// never touch the debt: only allocation and non-negative adjustments drive the collector
    Natural,
}

// event weight indices
pub const EW_MUTATE: usize = 0;
pub const EW_COLLECT: usize = 1;
pub const EW_HANDLE: usize = 2;
pub const EW_PACING: usize = 3;
pub const EW_ADJUST: usize = 4;
pub const EW_FAULT: usize = 5;
pub const EW_NEW_ARENA: usize = 6;
pub const EW_DROP_ARENA: usize = 7;
pub const EW_DROP_FAULT: usize = 8;
pub const EW_N: usize = 9;

// op weight indices
pub const OW_ALLOC_LINK: usize = 0;
pub const OW_GARBAGE: usize = 1;
pub const OW_RELINK: usize = 2;
pub const OW_UNLINK: usize = 3;
pub const OW_WEAK_LINK: usize = 4;
pub const OW_WEAK_UNLINK: usize = 5;
pub const OW_UPGRADE: usize = 6;
pub const OW_IS_DROPPED: usize = 7;
pub const OW_STASH: usize = 8;
pub const OW_PROBE: usize = 9;
pub const OW_BARRIER: usize = 10;
pub const OW_BURST: usize = 11;
pub const OW_PANIC: usize = 12;
pub const OW_ROOT_SET: usize = 13;
pub const OW_BUILDER: usize = 14;
pub const OW_CONVERT: usize = 15;
pub const OW_ZST: usize = 16;
pub const OW_HANDLE_IN: usize = 17;
pub const OW_COPY: usize = 18;
pub const OW_LEAK: usize = 19;
pub const OW_N: usize = 20;

/// What kind of object to allocate next: a fixed kind, or a parameterised family drawn per use.
#[derive(Clone, Copy, Debug, PartialEq, Eq, serde::Serialize, serde::Deserialize)]
pub enum KindChoice {
    Fixed(Kind),
    Slice,
    Swh,
    SwhPod,
    /// any entry of the layout family
    Lay,
    /// entries of one class of the layout family: 0 sized, 1 slice/str, 2 slice-with-header
    LayClass(u8),
}

#[derive(Clone, Debug, serde::Serialize, serde::Deserialize)]
pub struct GenCfg {
    pub events: usize,
    pub max_objs: usize,
    pub ops_lo: usize,
    pub ops_hi: usize,
    pub arenas: usize,
    pub max_handles: usize,
    pub w_event: [u32; EW_N],
    pub w_cb: [u32; 5],
    pub w_op: [u32; OW_N],
    pub kinds: Vec<(KindChoice, u32)>,
    /// chance out of 16 that a stored pointer is converted first (C19)
    pub conv_bias: u32,
    pub w_call: [u32; 5],
    pub w_marked: [u32; 3],
    pub step: StepPolicy,
    pub pacings: Vec<PacingSpec>,
    pub burst_max: u16,
    pub steer: bool,
    pub ctor_faults: bool,
    pub ctor_ops: usize,
    pub quarantine: bool,
    pub recycle: bool,
    /// finalize callbacks: chance (out of 8) that resurrect ops are drawn
    pub resurrect_bias: u32,
    /// chance out of 16 that a callback consists of barrier-only ops
    pub barrier_only_cb: u32,
    /// after an event that adopted a pointer during marking, stop generating (C06/C13 shape)
    pub settle_after_adoption: bool,
    /// chance out of 16 that a new arena has a bare root (no DynamicRootSet, no ZstCache)
    pub bare_bias: u32,
    /// chance out of 16 that a new arena has a pointer-free root type
    pub static_bias: u32,
    /// chance out of 64, per event, that the event is a `rootless_mutate` call
    pub rootless_bias: u32,
}

pub struct Gen {
    pub rng: Rng,
    pub cfg: GenCfg,
    queue: VecDeque<Op>,
    budget: usize,
    barrier_only: bool,
    finalize_stage: u8,
    pub adoption_seen: bool,
    queue_panic_at: Option<usize>,
}

fn dy(r: &mut Rng, xs: &[f64]) -> f64 {
    xs[r.below(xs.len())]
}

impl Gen {
    pub fn new(seed: u64, cfg: GenCfg) -> Gen {
        Gen { rng: Rng::new(seed), cfg, queue: VecDeque::new(), budget: 0, barrier_only: false, finalize_stage: 0, adoption_seen: false, queue_panic_at: None }
    }

    fn pick_pacing(&mut self) -> PacingSpec {
        let n = self.cfg.pacings.len();
        self.cfg.pacings[self.rng.below(n)]
    }

    fn begin_cb(&mut self) {
        self.queue.clear();
        self.budget = self.rng.range(self.cfg.ops_lo, self.cfg.ops_hi);
        self.barrier_only = self.rng.below(16) < self.cfg.barrier_only_cb as usize;
        self.finalize_stage = 0;
    }

    pub fn first_event(&mut self, w: &World) -> Event {
        self.new_arena_event(w, 0)
    }

    fn new_arena_event(&mut self, w: &World, a: Aid) -> Event {
        self.begin_cb();
        self.budget = self.rng.below(self.cfg.ctor_ops + 1);
        let fail = if self.cfg.ctor_faults && a != 0 && self.rng.chance(1, 3) {
            if self.rng.chance(1, 2) { CtorFail::TryNewErr } else { CtorFail::TryNewOk }
        } else if self.rng.chance(1, 4) {
            CtorFail::TryNewOk
        } else {
            CtorFail::No
        };
        if self.cfg.ctor_faults && a != 0 && self.rng.chance(1, 4) {
            // a panic somewhere in the constructor body
            let at = self.rng.below(self.budget + 1);
            self.queue_panic_at = Some(at);
        }
        let p = self.pick_pacing();
        let bare = self.rng.below(16) < self.cfg.bare_bias as usize;
        let static_root = self.rng.below(16) < self.cfg.static_bias as usize;
        Event::NewArena { a, root_set: w.sh.next_id, ops: vec![], p, fail, bare, static_root }
    }

    pub fn next_event(&mut self, w: &World) -> Event {
        let live = w.live_arenas();
        let n_slots = w.arenas.len();
        if live.is_empty() {
            if n_slots < 8 {
                return self.new_arena_event(w, n_slots as Aid);
            }
            return Event::ArmTraceFault { at: u64::MAX, repeat: 0 };
        }
        if self.cfg.rootless_bias > 0 && n_slots < 8 && self.rng.below(64) < self.cfg.rootless_bias as usize {
            self.begin_cb();
            self.budget = 1 + self.rng.below(self.cfg.ops_hi + 2);
            return Event::Rootless { a: n_slots as Aid, root_set: w.sh.next_id, ops: vec![] };
        }
        let mut we = self.cfg.w_event;
        if w.handles.is_empty() {
            we[EW_HANDLE] = 0;
        }
        if live.len() >= self.cfg.arenas || n_slots >= 8 {
            we[EW_NEW_ARENA] = 0;
        }
        if live.len() <= 1 {
            we[EW_DROP_ARENA] = 0;
        }
        if tok::armed_pending() {
            we[EW_FAULT] = 0;
        }
        if tok::drop_fault_pending() {
            we[EW_DROP_FAULT] = 0;
        }
        let a = live[self.rng.below(live.len())];
        match self.rng.weighted(&we) {
            EW_MUTATE => {
                self.begin_cb();
                let cb = [CbKind::Mutate, CbKind::MutateRoot, CbKind::MapRoot, CbKind::TryMapRoot, CbKind::TryMapRootErr][self.rng.weighted(&self.cfg.w_cb)];
                // a failing mapping destroys the arena: keep arena 0 alive in single-arena runs
                let cb = if cb == CbKind::TryMapRootErr && live.len() <= 1 { CbKind::TryMapRoot } else { cb };
                Event::Mutate { a, cb, ops: vec![] }
            }
            EW_COLLECT => {
                let call = [Call::CollectDebt, Call::MarkDebt, Call::FinishMarking, Call::CycleDebt, Call::FinishCycle][self.rng.weighted(&self.cfg.w_call)];
                let phase = w.phase(a);
                // the fence: no mid-cycle collect_debt while resurrected objects are protected
                let call = if call == Call::CollectDebt && phase != Phase::Sleeping && !w.sh.arena(a).resurrected.is_empty() { Call::CycleDebt } else { call };
                let debt = match self.cfg.step {
                    StepPolicy::One => Debt::Set(1.0 / 1024.0),
                    StepPolicy::Few => Debt::Set(dy(&mut self.rng, &[1.0 / 1024.0, 0.25, 0.5, 1.0, 2.0])),
                    StepPolicy::Mixed => match self.rng.below(6) {
                        0 | 1 => Debt::Set(1.0 / 1024.0),
                        2 => Debt::Set(dy(&mut self.rng, &[0.25, 0.5, 1.0, 2.0, 5.0])),
                        3 => Debt::Set(dy(&mut self.rng, &[64.0, 1048576.0, 1099511627776.0])),
                        4 => Debt::Leave,
                        _ => Debt::Add(dy(&mut self.rng, &[0.5, 1.0, 8.0])),
                    },
                    StepPolicy::Natural => {
                        if self.rng.chance(1, 8) { Debt::Add(dy(&mut self.rng, &[0.5, 1.0, 4.0, 32.0])) } else { Debt::Leave }
                    }
                };
                let then = match self.rng.weighted(&self.cfg.w_marked) {
                    0 => MarkedAction::Drop,
                    1 => MarkedAction::StartSweeping,
                    _ => {
                        self.begin_cb();
                        MarkedAction::Finalize(vec![])
                    }
                };
                Event::Collect { a, debt, call, then }
            }
            EW_HANDLE => {
                let hs: Vec<Hid> = w.handles.keys().copied().collect();
                let h = hs[self.rng.below(hs.len())];
                if hs.len() < self.cfg.max_handles && self.rng.chance(1, 2) {
                    Event::Handle { h, op: HandleOp::Clone { new: w.sh.next_hid } }
                } else {
                    Event::Handle { h, op: HandleOp::Drop }
                }
            }
            EW_PACING => Event::SetPacing { a, p: self.pick_pacing() },
            EW_ADJUST => {
                let neg = self.cfg.step != StepPolicy::Natural && self.rng.chance(1, 2);
                let x = dy(&mut self.rng, &[0.25, 1.0, 3.0, 1024.0, 1099511627776.0]);
                Event::AdjustDebt { a, x: if neg { -x } else { x } }
            }
            EW_FAULT => Event::ArmTraceFault { at: tok::ticks() + 1 + self.rng.below(12) as u64, repeat: 1 + self.rng.below(3) as u32 },
            EW_DROP_FAULT => Event::ArmDropFault { nth: 1 + self.rng.below(6) as u32 },
            EW_NEW_ARENA => self.new_arena_event(w, n_slots as Aid),
            _ => Event::DropArena { a },
        }
    }

    fn fresh_kind(&mut self) -> Kind {
        let ws: Vec<u32> = self.cfg.kinds.iter().map(|k| k.1).collect();
        match self.cfg.kinds[self.rng.weighted(&ws)].0 {
            KindChoice::Fixed(k) => k,
            KindChoice::Slice => Kind::Slice { len: self.rng.below(7) as u8 },
            KindChoice::Swh => Kind::Swh { len: self.rng.below(6) as u8 },
            KindChoice::SwhPod => Kind::SwhPod { len: self.rng.below(6) as u8 },
            KindChoice::Lay => self.lay_kind(None),
            KindChoice::LayClass(c) => self.lay_kind(Some(c)),
        }
    }

    fn lay_kind(&mut self, class: Option<u8>) -> Kind {
        use crate::lay::{LAYS, LayClass, MAX_LEN};
        let cands: Vec<usize> = (0..LAYS.len())
            .filter(|i| match class {
                None => true,
                Some(0) => LAYS[*i].class == LayClass::Sized,
                Some(1) => matches!(LAYS[*i].class, LayClass::Slice | LayClass::Str),
                Some(_) => LAYS[*i].class == LayClass::Swh,
            })
            .collect();
        let t = cands[self.rng.below(cands.len())];
        let len = if LAYS[t].class == LayClass::Sized {
            0
        } else if self.rng.chance(1, 4) {
            [0, 1, MAX_LEN][self.rng.below(3)]
        } else {
            self.rng.below(MAX_LEN + 1)
        };
        // the 4096-aligned element types are big: keep their slices short
        let len = if LAYS[t].name.contains("4096") { len.min(3) } else { len };
        Kind::Lay { t: t as u8, len: len as u8 }
    }

    fn conv_for(&mut self, v: &CbView<'_>, child: Id) -> Conv {
        if self.rng.below(16) >= self.cfg.conv_bias as usize {
            return Conv::None;
        }
        match v.sh.objs.get(&child).map(|o| o.kind) {
            Some(Kind::Node) => [Conv::Erase, Conv::Unsize, Conv::Raw, Conv::Weak, Conv::Kind][self.rng.below(if crate::payload::node_tag_of(child) != 0 { 5 } else { 4 })],
            Some(Kind::Field) => [Conv::Raw, Conv::Weak][self.rng.below(2)],
            Some(Kind::Slice { .. }) | Some(Kind::Swh { .. }) => [Conv::Thin, Conv::Thin, Conv::Weak][self.rng.below(3)],
            Some(_) => [Conv::None, Conv::Weak][self.rng.below(2)],
            None => Conv::None,
        }
    }

    fn route_for(&mut self, kind: Kind, storing_some: bool) -> Route {
        match kind {
            Kind::Node | Kind::Bag => [Route::Default, Route::WriteUnlock, Route::TryBorrowMut][self.rng.below(3)],
            Kind::Cell | Kind::CellP => [Route::Default, Route::WriteUnlock][self.rng.below(2)],
            Kind::Once => [Route::Default, Route::GetOrInit][self.rng.below(2)],
            Kind::Slice { .. } => [Route::Default, Route::ViaThin, Route::ViaRange][self.rng.below(3)],
            Kind::Swh { .. } => [Route::Default, Route::ViaThin][self.rng.below(2)],
            Kind::Raw => {
                if storing_some {
                    [Route::BackwardSome, Route::BackwardNone, Route::ForwardSome, Route::ForwardNone][self.rng.below(4)]
                } else {
                    [Route::NoBarrier, Route::BackwardNone][self.rng.below(2)]
                }
            }
            _ => Route::Default,
        }
    }

    /// Pick a holder with a writable strong slot. With steering, prefer fully traced parents
    /// while marking is in progress (that is where a missed barrier shows).
    fn pick_strong_holder(&mut self, v: &CbView<'_>) -> Option<(Holder, Kind, usize)> {
        let mut cands: Vec<(Holder, Kind, usize)> = vec![];
        let mut black: Vec<(Holder, Kind, usize)> = vec![];
        for id in &v.acc {
            let Some(o) = v.sh.objs.get(id) else { continue };
            let n = o.kind.writable_strong();
            if n == 0 || o.leaked {
                continue;
            }
            cands.push((Holder::Obj(*id), o.kind, n));
            if v.colors.get(id).is_some_and(|c| c.color == 3) {
                black.push((Holder::Obj(*id), o.kind, n));
            }
        }
        if v.root_mutable && (cands.is_empty() || self.rng.chance(1, 4)) {
            return Some((Holder::Root, Kind::Node, ROOT_STRONG));
        }
        if self.cfg.steer && !black.is_empty() && matches!(v.phase, Phase::Marking | Phase::Marked) && self.rng.chance(2, 3) {
            return Some(black[self.rng.below(black.len())]);
        }
        if cands.is_empty() {
            return None;
        }
        Some(cands[self.rng.below(cands.len())])
    }

    fn pick_weak_holder(&mut self, v: &CbView<'_>, want_some: bool) -> Option<(Holder, Kind, usize)> {
        let mut cands: Vec<(Holder, Kind, usize)> = vec![];
        for id in &v.acc {
            let Some(o) = v.sh.objs.get(id) else { continue };
            for k in 0..o.kind.n_weak() {
                if !want_some || o.weak[k].is_some() {
                    cands.push((Holder::Obj(*id), o.kind, k));
                }
            }
        }
        let ar = v.sh.arena(v.a);
        for k in 0..ROOT_WEAK {
            if (want_some && ar.root_weak[k].is_some()) || (!want_some && v.root_mutable) {
                cands.push((Holder::Root, Kind::Node, k));
            }
        }
        if cands.is_empty() {
            return None;
        }
        Some(cands[self.rng.below(cands.len())])
    }

    /// Pick a child to adopt: with steering prefer unmarked / freshly allocated ones mid-mark.
    fn pick_child(&mut self, v: &CbView<'_>) -> Option<Id> {
        if v.acc.is_empty() {
            return None;
        }
        if self.cfg.steer && matches!(v.phase, Phase::Marking | Phase::Marked) && self.rng.chance(1, 2) {
            let white: Vec<Id> = v.acc.iter().filter(|i| v.fresh.contains(i) || v.colors.get(i).is_some_and(|c| c.color <= 1)).copied().collect();
            if !white.is_empty() {
                return Some(white[self.rng.below(white.len())]);
            }
        }
        Some(v.acc[self.rng.below(v.acc.len())])
    }

    fn gen_link(&mut self, v: &CbView<'_>, child: Id) -> Option<Op> {
        let (holder, kind, n) = self.pick_strong_holder(v)?;
        let slot = self.rng.below(n);
        let route = if holder == Holder::Root { Route::Default } else { self.route_for(kind, true) };
        let conv = self.conv_for(v, child);
        Some(Op::Link { holder, slot: slot as u8, child, route, conv })
    }

    fn reach_count(v: &CbView<'_>) -> usize {
        v.reach.len().max(v.acc.len())
    }

    fn gen_finalize_op(&mut self, v: &CbView<'_>) -> Option<Op> {
        // stage 0: queries (upgrade + traverse to name strong pointers inside dead objects,
        // is_dead on everything nameable); stage 1: resurrections and ordinary mutation
        let weak_cands: Vec<(Holder, usize)> = {
            let mut c = vec![];
            for id in &v.acc {
                if let Some(o) = v.sh.objs.get(id) {
                    for k in 0..o.kind.n_weak() {
                        if o.weak[k].is_some() {
                            c.push((Holder::Obj(*id), k));
                        }
                    }
                }
            }
            let ar = v.sh.arena(v.a);
            for k in 0..ROOT_WEAK {
                if ar.root_weak[k].is_some() {
                    c.push((Holder::Root, k));
                }
            }
            c
        };
        let strong_cands: Vec<(Holder, usize)> = {
            let mut c = vec![];
            for id in &v.acc {
                if let Some(o) = v.sh.objs.get(id) {
                    if o.kind == Kind::SetHolder || o.kind == Kind::SetInner {
                        continue;
                    }
                    for k in 0..o.kind.n_strong() {
                        if o.strong[k].is_some() {
                            c.push((Holder::Obj(*id), k));
                        }
                    }
                }
            }
            c
        };
        if self.finalize_stage == 0 {
            if v.n_done >= self.budget / 2 + 1 || (weak_cands.is_empty() && strong_cands.is_empty()) {
                self.finalize_stage = 1;
            } else {
                let r = self.rng.below(10);
                if r < 3 && !weak_cands.is_empty() {
                    let (h, k) = weak_cands[self.rng.below(weak_cands.len())];
                    return Some(Op::Upgrade { holder: h, slot: k as u8, then: Then::Traverse });
                } else if r < 7 && !weak_cands.is_empty() {
                    let (h, k) = weak_cands[self.rng.below(weak_cands.len())];
                    return Some(Op::IsDead { holder: h, slot: k as u8, weak: true });
                } else if !strong_cands.is_empty() {
                    // prefer strong pointers held by objects that are not reachable (found through upgrades)
                    let unr: Vec<(Holder, usize)> = strong_cands.iter().filter(|(h, _)| matches!(h, Holder::Obj(i) if !v.reach.contains(i))).copied().collect();
                    let (h, k) = if !unr.is_empty() && self.rng.chance(2, 3) { unr[self.rng.below(unr.len())] } else { strong_cands[self.rng.below(strong_cands.len())] };
                    return Some(Op::IsDead { holder: h, slot: k as u8, weak: false });
                } else if !weak_cands.is_empty() {
                    let (h, k) = weak_cands[self.rng.below(weak_cands.len())];
                    return Some(Op::IsDead { holder: h, slot: k as u8, weak: true });
                }
            }
        }
        if self.rng.below(8) < self.cfg.resurrect_bias as usize {
            let r = self.rng.below(4);
            if r < 3 && !weak_cands.is_empty() {
                let (h, k) = weak_cands[self.rng.below(weak_cands.len())];
                return Some(Op::Resurrect { holder: h, slot: k as u8, weak: true });
            }
            let unr: Vec<(Holder, usize)> = strong_cands.iter().filter(|(h, _)| matches!(h, Holder::Obj(i) if !v.reach.contains(i))).copied().collect();
            if !unr.is_empty() {
                let (h, k) = unr[self.rng.below(unr.len())];
                return Some(Op::Resurrect { holder: h, slot: k as u8, weak: false });
            }
            if !weak_cands.is_empty() {
                let (h, k) = weak_cands[self.rng.below(weak_cands.len())];
                return Some(Op::Resurrect { holder: h, slot: k as u8, weak: true });
            }
        }
        if self.rng.chance(1, 2) {
            return None;
        }
        self.gen_plain_op(v)
    }

    fn gen_barrier_only(&mut self, v: &CbView<'_>) -> Option<Op> {
        if v.acc.is_empty() {
            return None;
        }
        let form = [
            BarrierForm::BackwardSome,
            BarrierForm::BackwardNone,
            BarrierForm::BackwardWeak,
            BarrierForm::ForwardSome,
            BarrierForm::ForwardNone,
            BarrierForm::ForwardWeakSome,
            BarrierForm::ForwardWeakNone,
            BarrierForm::Write,
            BarrierForm::Touch,
        ][self.rng.below(9)];
        // parents: prefer non-tracing leaves half of the time (C10), fully traced ones with steering
        let leaves: Vec<Id> = v.acc.iter().filter(|i| v.sh.objs.get(i).is_some_and(|o| !o.kind.needs_trace())).copied().collect();
        let parent = if !leaves.is_empty() && self.rng.chance(1, 2) { leaves[self.rng.below(leaves.len())] } else { v.acc[self.rng.below(v.acc.len())] };
        let child = self.pick_child(v)?;
        let (p, c) = match form {
            BarrierForm::BackwardNone | BarrierForm::Write | BarrierForm::Touch => (Some(parent), None),
            BarrierForm::ForwardNone | BarrierForm::ForwardWeakNone => (None, Some(child)),
            _ => (Some(parent), Some(child)),
        };
        Some(Op::BarrierOnly { form, parent: p, child: c })
    }

    fn gen_plain_op(&mut self, v: &CbView<'_>) -> Option<Op> {
        let mut wo = self.cfg.w_op;
        let full = Self::reach_count(v) >= self.cfg.max_objs;
        if full {
            wo[OW_ALLOC_LINK] = 0;
            wo[OW_UNLINK] = wo[OW_UNLINK].max(1) * 3;
        }
        if v.acc.is_empty() && !v.root_mutable {
            // nothing reachable and the root cannot be written: only garbage can be made
            wo = [0; OW_N];
            wo[OW_GARBAGE] = 1;
        }
        if !v.root_mutable {
            wo[OW_ROOT_SET] = 0;
        }
        if v.handles.is_empty() {
            wo[OW_PROBE] = 0;
            wo[OW_HANDLE_IN] = 0;
        }
        if v.handles.len() >= self.cfg.max_handles {
            wo[OW_STASH] = 0;
        }
        if v.constructing {
            wo[OW_PROBE] = 0;
            wo[OW_HANDLE_IN] = 0;
            wo[OW_UPGRADE] = 0;
            wo[OW_IS_DROPPED] = 0;
        }
        if wo.iter().all(|x| *x == 0) {
            return None;
        }
        for _attempt in 0..6 {
            match self.rng.weighted(&wo) {
                OW_ALLOC_LINK => {
                    let kind = self.fresh_kind();
                    let id = v.sh.next_id;
                    // decide the link now, against the view before the allocation
                    let conv = if self.rng.below(16) < self.cfg.conv_bias as usize {
                        match kind {
                            Kind::Node => [Conv::Erase, Conv::Unsize, Conv::Raw, Conv::Weak, Conv::Kind][self.rng.below(if crate::payload::node_tag_of(id) != 0 { 5 } else { 4 })],
                            Kind::Slice { .. } | Kind::Swh { .. } => Conv::Thin,
                            _ => Conv::None,
                        }
                    } else {
                        Conv::None
                    };
                    let link = match self.pick_strong_holder(v) {
                        Some((holder, hk, n)) => {
                            let slot = self.rng.below(n);
                            let route = if holder == Holder::Root { Route::Default } else { self.route_for(hk, true) };
                            Op::Link { holder, slot: slot as u8, child: id, route, conv }
                        }
                        None => continue,
                    };
                    self.queue.push_back(link);
                    return Some(Op::Alloc { id, kind });
                }
                OW_GARBAGE => {
                    let kind = self.fresh_kind();
                    return Some(Op::Alloc { id: v.sh.next_id, kind });
                }
                OW_RELINK => {
                    let Some(child) = self.pick_child(v) else { continue };
                    if let Some(op) = self.gen_link(v, child) {
                        return Some(op);
                    }
                }
                OW_UNLINK => {
                    // prefer occupied slots
                    let mut occ: Vec<(Holder, Kind, usize)> = vec![];
                    for id in &v.acc {
                        if let Some(o) = v.sh.objs.get(id).filter(|o| !o.leaked) {
                            for k in 0..o.kind.writable_strong() {
                                if o.strong[k].is_some() && !(o.kind == Kind::Once || (o.kind == Kind::Field && k == FIELD_ONCE_SLOT)) {
                                    occ.push((Holder::Obj(*id), o.kind, k));
                                }
                            }
                        }
                    }
                    if v.root_mutable {
                        let ar = v.sh.arena(v.a);
                        for k in 0..ROOT_STRONG {
                            if ar.root_strong[k].is_some() {
                                occ.push((Holder::Root, Kind::Node, k));
                            }
                        }
                    }
                    if occ.is_empty() {
                        continue;
                    }
                    let (holder, kind, slot) = occ[self.rng.below(occ.len())];
                    let route = if holder == Holder::Root { Route::Default } else { self.route_for(kind, false) };
                    return Some(Op::Unlink { holder, slot: slot as u8, route });
                }
                OW_WEAK_LINK => {
                    let Some((holder, kind, slot)) = self.pick_weak_holder(v, false) else { continue };
                    if holder == Holder::Root && !v.root_mutable {
                        continue;
                    }
                    let route = if holder == Holder::Root { Route::Default } else { self.route_for(kind, true) };
                    if self.rng.chance(1, 2) && !full {
                        let id = v.sh.next_id;
                        let k = self.fresh_kind();
                        let conv = if self.rng.below(16) < self.cfg.conv_bias as usize {
                            match k {
                                Kind::Node => [Conv::Erase, Conv::Unsize, Conv::Raw, Conv::Kind][self.rng.below(if crate::payload::node_tag_of(id) != 0 { 4 } else { 3 })],
                                Kind::Field => Conv::Raw,
                                Kind::Slice { .. } | Kind::Swh { .. } => Conv::Thin,
                                _ => Conv::None,
                            }
                        } else {
                            Conv::None
                        };
                        self.queue.push_back(Op::LinkWeak { holder, slot: slot as u8, child: id, route, conv });
                        return Some(Op::Alloc { id, kind: k });
                    }
                    let Some(child) = self.pick_child(v) else { continue };
                    let conv = match self.conv_for(v, child) {
                        Conv::Weak => Conv::None,
                        c => c,
                    };
                    return Some(Op::LinkWeak { holder, slot: slot as u8, child, route, conv });
                }
                OW_WEAK_UNLINK => {
                    let Some((holder, kind, slot)) = self.pick_weak_holder(v, true) else { continue };
                    if holder == Holder::Root && !v.root_mutable {
                        continue;
                    }
                    let route = if holder == Holder::Root { Route::Default } else { self.route_for(kind, false) };
                    return Some(Op::UnlinkWeak { holder, slot: slot as u8, route });
                }
                OW_UPGRADE => {
                    let Some((holder, _, slot)) = self.pick_weak_holder(v, true) else { continue };
                    let then = match self.rng.below(4) {
                        0 => Then::Discard,
                        1 => Then::Traverse,
                        _ => match self.pick_strong_holder(v) {
                            Some((h2, k2, n2)) => {
                                let s2 = self.rng.below(n2);
                                let route = if h2 == Holder::Root { Route::Default } else { self.route_for(k2, true) };
                                Then::Store { holder: h2, slot: s2 as u8, route }
                            }
                            None => Then::Traverse,
                        },
                    };
                    return Some(Op::Upgrade { holder, slot: slot as u8, then });
                }
                OW_IS_DROPPED => {
                    let Some((holder, _, slot)) = self.pick_weak_holder(v, true) else { continue };
                    return Some(Op::IsDropped { holder, slot: slot as u8 });
                }
                OW_STASH => {
                    let objs: Vec<Id> = v.acc.iter().filter(|i| v.sh.objs.get(i).is_some_and(|o| o.kind.stashable())).copied().collect();
                    if objs.is_empty() {
                        continue;
                    }
                    let holders: Vec<Id> = v.acc.iter().filter(|i| v.sh.objs.get(i).is_some_and(|o| o.kind == Kind::SetHolder)).copied().collect();
                    let set = if !holders.is_empty() && self.rng.chance(1, 2) { SetRef::Holder(holders[self.rng.below(holders.len())]) } else { SetRef::Root };
                    return Some(Op::Stash { set, obj: objs[self.rng.below(objs.len())], handle: v.sh.next_hid });
                }
                OW_PROBE => {
                    let (h, _, _, _) = v.handles[self.rng.below(v.handles.len())];
                    let holders: Vec<Id> = v.acc.iter().filter(|i| v.sh.objs.get(i).is_some_and(|o| o.kind == Kind::SetHolder)).copied().collect();
                    let set = if !holders.is_empty() && self.rng.chance(1, 2) { SetRef::Holder(holders[self.rng.below(holders.len())]) } else { SetRef::Root };
                    return Some(Op::Probe { handle: h, set });
                }
                OW_COPY => {
                    // an immutable slice born with its pointers (the copy path), then linked. One of
                    // its children is usually brand new: nothing else keeps it alive or marks it
                    let Some((holder, hk, ns)) = self.pick_strong_holder(v) else { continue };
                    let n = 1 + self.rng.below(4);
                    let mut next = v.sh.next_id;
                    let mut children: Vec<Option<Id>> = vec![];
                    let mut ops: Vec<Op> = vec![];
                    for _ in 0..n {
                        match self.rng.below(4) {
                            0 => children.push(None),
                            1 | 2 if !full => {
                                let k = [Kind::Node, Kind::Leaf, Kind::Cell, Kind::Raw][self.rng.below(4)];
                                ops.push(Op::Alloc { id: next, kind: k });
                                children.push(Some(next));
                                next += 1;
                            }
                            _ => children.push(self.pick_child(v)),
                        }
                    }
                    let id = next;
                    let header = self.rng.chance(1, 3);
                    ops.push(Op::AllocCopy { id, children, header });
                    let slot = self.rng.below(ns);
                    let route = if holder == Holder::Root { Route::Default } else { self.route_for(hk, true) };
                    ops.push(Op::Link { holder, slot: slot as u8, child: id, route, conv: Conv::None });
                    let first = ops.remove(0);
                    for o in ops {
                        self.queue.push_back(o);
                    }
                    return Some(first);
                }
                OW_HANDLE_IN => {
                    // a handle cloned or dropped by client code *inside* a callback
                    let own: Vec<Hid> = v.handles.iter().filter(|x| x.1 == v.a || !v.sh.arena_alive(x.1)).map(|x| x.0).collect();
                    if own.is_empty() {
                        continue;
                    }
                    let h = own[self.rng.below(own.len())];
                    let op = if v.handles.len() < self.cfg.max_handles && self.rng.chance(1, 2) { HandleOp::Clone { new: v.sh.next_hid } } else { HandleOp::Drop };
                    return Some(Op::HandleIn { h, op });
                }
                OW_BARRIER => {
                    if let Some(op) = self.gen_barrier_only(v) {
                        return Some(op);
                    }
                }
                OW_BURST => {
                    let n = if self.rng.chance(1, 8) { self.cfg.burst_max } else { 1 + self.rng.below(self.cfg.burst_max.min(64) as usize) as u16 };
                    return Some(Op::Burst { first: v.sh.next_id, n });
                }
                OW_PANIC => return Some(Op::Panic),
                OW_BUILDER => {
                    let kind = [
                        BKind::Sized, BKind::Swh, BKind::Swh, BKind::SwhTokPod, BKind::SwhTokPod, BKind::SwhPodTok, BKind::Slice, BKind::CopySlice, BKind::Str, BKind::StaticSwh,
                        BKind::SliceZst, BKind::SwhZst, BKind::SwhZst, BKind::SwhMeta, BKind::SwhRaw, BKind::SizedRaw, BKind::StrRaw, BKind::TmToks,
                    ][self.rng.below(18)];
                    let n = self.rng.below(9) as u8;
                    let stage = match self.rng.below(8) {
                        0 => BStage::AbandonNew,
                        1 => BStage::AbandonAfterHeader,
                        2 | 3 | 4 => BStage::PanicAt(if n == 0 { 0 } else { self.rng.below(n as usize) as u8 }),
                        5 => BStage::WrongLen([-1i8, 1, 2, -(n as i8)][self.rng.below(4)]),
                        _ => BStage::Complete,
                    };
                    let stage = match (kind, stage) {
                        (BKind::CopySlice | BKind::Str, BStage::PanicAt(_)) => BStage::WrongLen(1),
                        (BKind::Swh | BKind::SwhPodTok | BKind::Slice | BKind::StaticSwh, BStage::WrongLen(_)) => BStage::AbandonAfterHeader,
                        (BKind::Sized, BStage::PanicAt(_) | BStage::WrongLen(_)) => BStage::AbandonNew,
                        (BKind::SliceZst, BStage::WrongLen(_)) => BStage::Complete,
                        (BKind::SwhZst | BKind::SwhMeta, BStage::WrongLen(_)) => BStage::Complete,
                        (BKind::SwhRaw, BStage::PanicAt(_) | BStage::WrongLen(_)) => BStage::Complete,
                        (BKind::SizedRaw | BKind::StrRaw | BKind::TmToks, BStage::PanicAt(_) | BStage::WrongLen(_) | BStage::AbandonAfterHeader) => BStage::Complete,
                        (_, s) => s,
                    };
                    let first = v.sh.next_id;
                    if matches!(kind, BKind::Swh | BKind::SwhZst | BKind::SliceZst | BKind::SwhMeta | BKind::SwhRaw | BKind::SizedRaw | BKind::TmToks) && stage == BStage::Complete && self.rng.chance(2, 3) {
                        // link the finished object so that it is later collected like any other
                        if let Some((holder, hk, ns)) = self.pick_strong_holder(v) {
                            let slot = self.rng.below(ns);
                            let route = if holder == Holder::Root { Route::Default } else { self.route_for(hk, true) };
                            self.queue.push_back(Op::Link { holder, slot: slot as u8, child: first, route, conv: Conv::None });
                        }
                    }
                    return Some(Op::Builder { first, kind, n, stage });
                }
                OW_CONVERT => {
                    let Some(obj) = self.pick_child(v) else { continue };
                    let n = 1 + self.rng.below(4);
                    let all = [Conv::Erase, Conv::Unsize, Conv::Raw, Conv::Weak, Conv::Thin, Conv::Kind];
                    let chain = (0..n).map(|_| all[self.rng.below(all.len())]).collect();
                    return Some(Op::Convert { obj, chain });
                }
                OW_LEAK => {
                    // prefer a lock that holds something
                    let c: Vec<(Id, bool)> = v.acc.iter().filter_map(|i| v.sh.objs.get(i).filter(|o| o.kind == Kind::Leaky && !o.leaked).map(|o| (*i, o.strong[0].is_some()))).collect();
                    let full: Vec<Id> = c.iter().filter(|x| x.1).map(|x| x.0).collect();
                    if !full.is_empty() && self.rng.chance(7, 8) {
                        return Some(Op::LeakGuard { obj: full[self.rng.below(full.len())] });
                    }
                    if c.is_empty() {
                        continue;
                    }
                    return Some(Op::LeakGuard { obj: c[self.rng.below(c.len())].0 });
                }
                OW_ZST => {
                    let sized = self.rng.chance(1, 6);
                    return Some(Op::Zst { id: v.sh.next_id, a: self.rng.below(7) as u8, sized, via_static: self.rng.chance(1, 2) });
                }
                OW_ROOT_SET => {
                    if self.rng.chance(1, 3) {
                        let ar = v.sh.arena(v.a);
                        let occ: Vec<usize> = (0..ROOT_STRONG).filter(|k| ar.root_strong[*k].is_some()).collect();
                        if !occ.is_empty() {
                            return Some(Op::Unlink { holder: Holder::Root, slot: occ[self.rng.below(occ.len())] as u8, route: Route::Default });
                        }
                    }
                    let slot = self.rng.below(ROOT_STRONG) as u8;
                    if v.acc.is_empty() || (self.rng.chance(1, 2) && !full) {
                        let id = v.sh.next_id;
                        let kind = self.fresh_kind();
                        self.queue.push_back(Op::Link { holder: Holder::Root, slot, child: id, route: Route::Default, conv: Conv::None });
                        return Some(Op::Alloc { id, kind });
                    }
                    let Some(child) = self.pick_child(v) else { continue };
                    let conv = self.conv_for(v, child);
                    return Some(Op::Link { holder: Holder::Root, slot, child, route: Route::Default, conv });
                }
                _ => {}
            }
        }
        None
    }
}

impl Gen {
    #[allow(non_upper_case_globals)]
    fn take_panic(&mut self, n_done: usize) -> bool {
        if self.queue_panic_at == Some(n_done) {
            self.queue_panic_at = None;
            return true;
        }
        false
    }
}

impl OpGen for Gen {
    fn next_op(&mut self, v: &CbView<'_>) -> Option<Op> {
        if let Some(op) = self.queue.pop_front() {
            return Some(op);
        }
        if self.take_panic(v.n_done) {
            return Some(Op::Panic);
        }
        if v.n_done >= self.budget {
            return None;
        }
        if v.finalize {
            return self.gen_finalize_op(v);
        }
        if self.barrier_only && !v.constructing {
            return self.gen_barrier_only(v);
        }
        self.gen_plain_op(v)
    }
}
