//! Arena lifecycle, mutator and collector events, and the run suffixes.

use std::collections::BTreeSet;

use gc_arena::arena::CollectionPhase as Phase;
use gc_arena::{DynamicRootSet, Finalization, Mutation};

use crate::cb::*;
use crate::ops::*;
use crate::payload::*;
use crate::seam;
use crate::shadow::*;
use crate::tok::{self, FaultPoint, ROOT_SITE};
use crate::world::*;

const EPS: f64 = 1.0 / 1024.0;

/// C08: allowed phases after `call` issued in phase `p` with (debt > 0) = `d`.
pub fn allowed_post(call: Call, p: Phase, d: bool) -> &'static [Phase] {
    use Phase::*;
    const ALL: &[Phase] = &[Sleeping, Marking, Marked, Sweeping];
    match call {
        Call::MarkDebt => match p {
            Sweeping => &[Sweeping],
            Marked => &[Marked],
            Marking => &[Marking, Marked],
            Sleeping => {
                if d {
                    &[Marking, Marked]
                } else {
                    &[Sleeping]
                }
            }
        },
        Call::FinishMarking => match p {
            Sweeping => &[Sweeping],
            _ => &[Marked],
        },
        Call::CycleDebt => {
            if !d {
                match p {
                    Sleeping => &[Sleeping],
                    Marking => &[Marking],
                    Marked => &[Marked],
                    Sweeping => &[Sweeping],
                }
            } else {
                match p {
                    Sleeping | Marking => ALL,
                    Marked => &[Sweeping, Sleeping],
                    Sweeping => &[Sweeping, Sleeping],
                }
            }
        }
        Call::FinishCycle => &[Sleeping],
        Call::CollectDebt => {
            if !d {
                match p {
                    Sleeping => &[Sleeping],
                    Marking => &[Marking],
                    Marked => &[Marked],
                    Sweeping => &[Sweeping],
                }
            } else {
                ALL
            }
        }
    }
}

fn body<'gc>(
    w: &mut World,
    a: Aid,
    mc: &'gc Mutation<'gc>,
    fc: Option<&'gc Finalization<'gc>>,
    root: RootRef<'_, 'gc>,
    phase: Phase,
    constructing: bool,
    src: &mut Src<'_>,
) -> CbReport {
    let _p = seam::pause();
    let reach0 = w.sh.reach(a);
    let clean0 = w.rt[a as usize].clean_since_wake;
    let mut cb = Cb {
        w,
        a,
        mc,
        fc,
        root,
        map: Default::default(),
        fresh: Default::default(),
        phase,
        constructing,
        colors: Default::default(),
        res_allow: 0.0,
        reach0,
        clean0,
        rep: CbReport::default(),
    };
    cb.run(src);
    std::mem::take(&mut cb.rep)
}

pub fn finalize_body<'gc>(w: &mut World, a: Aid, fc: &'gc Finalization<'gc>, root: &RootBody<'gc>, p: Phase, src: &mut Src<'_>) -> CbReport {
    let mc: &'gc Mutation<'gc> = fc;
    body(w, a, mc, Some(fc), RootRef::Shared(root), p, false, src)
}

fn new_root_body<'gc>(w: &mut World, a: Aid, mc: &'gc Mutation<'gc>, root_set: Id, bare: bool) -> RootBody<'gc> {
    if bare {
        // ids root_set and root_set + 1 stay unused: nothing refers to them
        w.sh.next_id = w.sh.next_id.max(root_set + 2);
        return RootBody { slots: vec![None; ROOT_STRONG], fp: FaultPoint(ROOT_SITE + a as u32), weak: vec![None; ROOT_WEAK], set: None, zst: None };
    }
    let since = seam::mark();
    let set = {
        let _t = seam::track();
        DynamicRootSet::new(mc)
    };
    let snap = mc.verif_snapshot();
    let addr = snap.objects.first().map(|o| o.addr).unwrap_or(0);
    let block = seam::attribute(addr, since, root_set);
    if block.is_none() && seam::active() {
        w.violate("H.seam", "cannot locate the Gc object of the root DynamicRootSet".into());
    }
    w.sh.objs.insert(
        root_set,
        Obj { kind: Kind::SetInner, arena: a, strong: vec![], weak: vec![], toks: vec![], addr, block, destructed: false, released: false, born_event: w.ev_index as u32, lay: None, conv: vec![], drop_faulted: false, leaked: false },
    );
    w.addr2id.insert(addr, root_set);
    w.rt[a as usize].allocs += 1;
    // the ZstCache and its shared object
    let since = seam::mark();
    let zst = {
        let _t = seam::track();
        gc_arena::zst_cache::ZstCache::<16>::new(mc)
    };
    let zaddr = gc_arena::Gc::as_ptr(zst.cached_ptr()) as usize;
    let zblock = seam::attribute(zaddr, since, root_set + 1);
    if zblock.is_none() && seam::active() {
        w.violate("H.seam", "cannot locate the Gc object of the root ZstCache".into());
    }
    if zaddr % 16 != 0 {
        w.violate("C19.zst-table", "the cached pointer of a ZstCache<16> is not aligned to 16".into());
    }
    w.sh.objs.insert(
        root_set + 1,
        Obj { kind: Kind::ZstShared, arena: a, strong: vec![], weak: vec![], toks: vec![], addr: zaddr, block: zblock, destructed: false, released: false, born_event: w.ev_index as u32, lay: None, conv: vec![], drop_faulted: false, leaked: false },
    );
    w.addr2id.insert(zaddr, root_set + 1);
    w.sh.arena_mut(a).root_zst = Some(root_set + 1);
    w.rt[a as usize].allocs += 1;
    w.sh.next_id = w.sh.next_id.max(root_set + 2);
    RootBody { slots: vec![None; ROOT_STRONG], fp: FaultPoint(ROOT_SITE + a as u32), weak: vec![None; ROOT_WEAK], set: Some(set), zst: Some(zst) }
}

impl World {
    fn src_for<'a>(recorded: &'a [Op], out: &'a mut Vec<Op>, g: GenRef<'a>) -> Src<'a> {
        match g {
            Some(g) => Src::Gen { g, out },
            None => Src::Replay { ops: recorded, pos: 0 },
        }
    }

    /// After an arena ceased to exist (dropped, or consumed by a failed constructor / mapping):
    /// every value destructed exactly once, every Gc block released, the count reads zero.
    fn account_dead_arena(&mut self, a: Aid, failed_ctor: bool) {
        let o_never = if failed_ctor { "C11.ctor-destruct" } else { "C04.never" };
        let o_out = if failed_ctor { "C11.ctor-outstanding" } else { "C04.outstanding" };
        let ids: Vec<Id> = self.sh.arena_objs(a).map(|(i, _)| *i).collect();
        for i in ids {
            let o = &self.sh.objs[&i];
            for t in &o.toks {
                let n = tok::drops(*t);
                if n == 0 {
                    let d = format!("arena {a} is gone but value {i} (token {t}) was never destructed");
                    self.violate(o_never, d);
                    return;
                } else if n > 1 {
                    let d = format!("value {i} (token {t}) destructed {n} times");
                    self.violate("C04.twice", d);
                    return;
                }
            }
            if seam::active() {
                if let Some(b) = self.sh.objs[&i].block {
                    if seam::block(b).live && !self.sh.objs[&i].drop_faulted {
                        let d = format!("arena {a} is gone but the Gc block of {i} was never released");
                        self.violate(o_out, d);
                        return;
                    }
                }
            }
        }
        let leaked = self.sh.arena_objs(a).filter(|(_, o)| o.drop_faulted && o.block.is_some_and(|b| seam::block(b).live)).count();
        if seam::active() && seam::live_gc_blocks(a as u16) != leaked as i64 {
            let d = format!("arena {a} is gone but {} Gc blocks are still allocated", seam::live_gc_blocks(a as u16));
            self.violate(o_out, d);
        }
        if let Some(m) = &self.rt[a as usize].retained {
            if m.total_gc_count() != leaked {
                let d = format!("arena {a} is gone but its retained Metrics reads total_gc_count = {}", m.total_gc_count());
                self.violate("C04.count-after-drop", d);
            }
        }
        self.sh.arena_mut(a).alive = false;
        self.sh.arena_mut(a).resurrected.clear();
    }

    pub fn ev_new_arena(&mut self, a: Aid, root_set: Id, ops: &mut Vec<Op>, p: PacingSpec, fail: CtorFail, bare: bool, static_root: bool, g: GenRef<'_>) {
        let ai = a as usize;
        if self.arenas.len() > ai && (self.arenas[ai].is_some() || self.sh.arenas[ai].is_some()) {
            return;
        }
        if self.sh.objs.contains_key(&root_set) || self.sh.objs.contains_key(&(root_set + 1)) || ai > self.arenas.len() || ai >= 8 {
            return;
        }
        while self.arenas.len() <= ai {
            self.arenas.push(None);
            self.sh.arenas.push(None);
            self.rt.push(ArenaRt::default());
        }
        self.sh.arenas[ai] = Some(ArenaShadow {
            alive: true,
            root_is_b: false,
            root_strong: vec![None; ROOT_STRONG],
            root_weak: vec![None; ROOT_WEAK],
            root_set_inner: root_set,
            root_zst: None,
            resurrected: BTreeSet::new(),
            pacing: p,
        });
        let recorded = std::mem::take(ops);
        let mut out = vec![];
        let ctxg = seam::enter(seam::CTX_CALLBACK, a as u16);
        let res = {
            let mut src = Self::src_for(&recorded, &mut out, g);
            let me = &mut *self;
            guarded(|| {
                let _t = seam::track();
                if static_root {
                    // a root that holds no pointers: the constructor ops only make garbage
                    me.sh.next_id = me.sh.next_id.max(root_set + 2);
                    return match fail {
                        CtorFail::No => Ok(ArenaBox::S(ArenaS::new(|mc| {
                            let _p = seam::pause();
                            static_owned_body(me, a, mc, Phase::Sleeping, true, &mut src, false);
                            RootS { generation: 0 }
                        }))),
                        CtorFail::TryNewOk | CtorFail::TryNewErr => ArenaS::try_new(|mc| {
                            let _p = seam::pause();
                            let failing = fail == CtorFail::TryNewErr;
                            static_owned_body(me, a, mc, Phase::Sleeping, true, &mut src, failing);
                            if failing { Err(()) } else { Ok(RootS { generation: 0 }) }
                        })
                        .map(ArenaBox::S),
                    };
                }
                match fail {
                    CtorFail::No => Ok(ArenaA::new(|mc| {
                        let _p = seam::pause();
                        let mut rb = new_root_body(me, a, mc, root_set, bare);
                        owned_body(me, a, mc, &mut rb, Phase::Sleeping, true, &mut src, false);
                        RootA { body: rb }
                    }))
                    .map(ArenaBox::A),
                    CtorFail::TryNewOk | CtorFail::TryNewErr => ArenaA::try_new(|mc| {
                        let _p = seam::pause();
                        let mut rb = new_root_body(me, a, mc, root_set, bare);
                        // on Err, from the return on the arena is being torn down
                        let failing = fail == CtorFail::TryNewErr;
                        owned_body(me, a, mc, &mut rb, Phase::Sleeping, true, &mut src, failing);
                        if failing { Err(()) } else { Ok(RootA { body: rb }) }
                    })
                    .map(ArenaBox::A),
                }
            })
        };
        drop(ctxg);
        *ops = if out.is_empty() { recorded } else { out };
        let empty = BTreeSet::new();
        self.process_events(&empty, &empty);
        match res {
            Caught::Ok(Ok(arena)) => {
                let mut arena = arena;
                let metrics = with_arena!(arena, ar => ar.metrics().clone());
                {
                    let _g = seam::enter(seam::CTX_OUTSIDE, a as u16);
                    let _t = seam::track();
                    metrics.set_pacing(p.to_pacing());
                }
                self.arenas[ai] = Some(ArenaSlot { arena, metrics });
                self.sigmix(0xA0);
                self.check_metrics(a);
            }
            Caught::Ok(Err(())) | Caught::Injected | Caught::Stopped => {
                self.stats.ctor_failures += 1;
                self.sigmix(0xA1);
                self.account_dead_arena(a, true);
            }
            Caught::Unexpected(m) => self.violate("C10.panic", format!("Arena::new panicked: {m}")),
        }
    }

    /// `arena::rootless_mutate`: a collector context that exists for the duration of one callback.
    /// No root, no collection calls: everything allocated is destructed and released when the call
    /// returns (a permitted destructor context, C03), exactly once and completely (C04).
    pub fn ev_rootless(&mut self, a: Aid, root_set: Id, ops: &mut Vec<Op>, g: GenRef<'_>) {
        let ai = a as usize;
        if ai != self.arenas.len() || ai >= 8 || self.sh.objs.contains_key(&root_set) || self.sh.objs.contains_key(&(root_set + 1)) {
            return;
        }
        self.arenas.push(None);
        self.sh.arenas.push(None);
        self.rt.push(ArenaRt::default());
        self.sh.arenas[ai] = Some(ArenaShadow {
            alive: true,
            root_is_b: false,
            root_strong: vec![None; ROOT_STRONG],
            root_weak: vec![None; ROOT_WEAK],
            root_set_inner: root_set,
            root_zst: None,
            resurrected: BTreeSet::new(),
            pacing: PacingSpec::default_spec(),
        });
        self.sh.next_id = self.sh.next_id.max(root_set + 2);
        self.stats.callbacks += 1;
        self.stats.cell("rootless".into());
        let recorded = std::mem::take(ops);
        let mut out = vec![];
        let ctxg = seam::enter(seam::CTX_CALLBACK, a as u16);
        let mut retained: Option<gc_arena::metrics::Metrics> = None;
        let res = {
            let mut src = Self::src_for(&recorded, &mut out, g);
            let me = &mut *self;
            let keep = &mut retained;
            guarded(|| {
                let _t = seam::track();
                gc_arena::arena::rootless_mutate(|mc| {
                    let _p = seam::pause();
                    *keep = Some(mc.metrics().clone());
                    // from the return of the body on, the context is being torn down
                    static_owned_body(me, a, mc, Phase::Sleeping, true, &mut src, true);
                })
            })
        };
        drop(ctxg);
        *ops = if out.is_empty() { recorded } else { out };
        let empty = BTreeSet::new();
        self.process_events(&empty, &empty);
        match res {
            Caught::Ok(()) | Caught::Injected | Caught::Stopped => {
                self.rt[ai].retained = retained;
                self.sigmix(0xA7);
                if self.ok() {
                    self.account_dead_arena(a, false);
                }
            }
            Caught::Unexpected(m) => self.violate("C10.panic", format!("rootless_mutate panicked: {m}")),
        }
    }

    pub fn ev_drop_arena(&mut self, a: Aid) {
        if !self.sh.arena_alive(a) || self.arenas[a as usize].is_none() {
            return;
        }
        let phase = self.phase(a);
        self.stats.arena_drops += 1;
        self.stats.cell(format!("arena-drop|{}", phase_name(phase)));
        if phase != Phase::Sleeping {
            self.stats.flag("C04.drop-mid-cycle");
        }
        {
            // what is present at the drop point
            let reach = self.sh.reach(a);
            let mut kinds = 0;
            let (mut held, mut shell, mut garbage) = (false, false, false);
            for (i, o) in self.sh.arena_objs(a) {
                if o.released {
                    continue;
                }
                if reach.contains(i) {
                    held = true;
                } else if o.destructed {
                    shell = true;
                } else {
                    garbage = true;
                }
            }
            for b in [held, shell, garbage] {
                kinds += b as u32;
            }
            if kinds >= 2 {
                self.stats.flag("C04.drop-mixed");
            }
            if (0..self.arenas.len()).any(|o| o != a as usize && self.arenas[o].is_some() && self.phase(o as Aid) != Phase::Sleeping) {
                self.stats.flag("C20.drop-while-other-mid-cycle");
            }
        }
        let slot = self.arenas[a as usize].take().unwrap();
        self.rt[a as usize].retained = Some(slot.metrics.clone());
        let ctxg = seam::enter(seam::CTX_ARENA_DROP, a as u16);
        let r = guarded(|| {
            let _t = seam::track();
            drop(slot);
        });
        drop(ctxg);
        let empty = BTreeSet::new();
        self.process_events(&empty, &empty);
        if let Caught::Unexpected(m) = r {
            self.violate("C10.panic", format!("dropping arena {a} panicked: {m}"));
        }
        self.sigmix(0xA2 + phase_code(phase) as u64);
        if self.ok() {
            self.account_dead_arena(a, false);
        }
    }

    // --------------------------------------------------------------------------------------------
    // the mutator

    pub fn ev_mutate(&mut self, a: Aid, cbk: CbKind, ops: &mut Vec<Op>, g: GenRef<'_>) {
        if !self.sh.arena_alive(a) || self.arenas[a as usize].is_none() {
            return;
        }
        self.stats.callbacks += 1;
        let p = self.phase(a);
        let m = self.metrics(a).clone();
        let (d0, c0) = (m.allocation_debt(), m.total_gc_count());
        if d0 > 0.0 && p != Phase::Sleeping {
            self.stats.flag("C03.entered-with-debt-mid-cycle");
        }
        if p == Phase::Marking {
            self.stats.flag("C03.gray-pending");
        }
        let mut slot: Option<ArenaSlot> = self.arenas[a as usize].take();
        let s_is_static = slot.as_ref().map(|s| matches!(s.arena, ArenaBox::S(_)));
        let recorded = std::mem::take(ops);
        let mut out = vec![];
        let ctxg = seam::enter(seam::CTX_CALLBACK, a as u16);
        let consuming = matches!(cbk, CbKind::MapRoot | CbKind::TryMapRoot | CbKind::TryMapRootErr);
        let res: Caught<Option<CbReport>> = {
            let mut src = Self::src_for(&recorded, &mut out, g);
            let me = &mut *self;
            match cbk {
                CbKind::Mutate => {
                    let s = slot.as_mut().unwrap();
                    guarded(|| {
                        let _t = seam::track();
                        Some(with_arena_root!(s.arena, ar => ar.mutate(|mc, root| body(me, a, mc, None, RootRef::Shared(&root.body), p, false, &mut src)),
                            ar => ar.mutate(|mc, _root| static_body(me, a, mc, p, false, &mut src))))
                    })
                }
                CbKind::MutateRoot => {
                    let s = slot.as_mut().unwrap();
                    guarded(|| {
                        let _t = seam::track();
                        Some(with_arena_root!(s.arena, ar => ar.mutate_root(|mc, root| body(me, a, mc, None, RootRef::Mut(&mut root.body), p, false, &mut src)),
                            ar => ar.mutate_root(|mc, root| {
                                root.generation += 1;
                                static_body(me, a, mc, p, false, &mut src)
                            })))
                    })
                }
                CbKind::MapRoot | CbKind::TryMapRoot | CbKind::TryMapRootErr => {
                    let ArenaSlot { arena, metrics } = slot.take().unwrap();
                    let mut rep: Option<CbReport> = None;
                    let r = {
                        let repr = &mut rep;
                        let srcr = &mut src;
                        guarded(move || {
                            let _t = seam::track();
                            map_arena(me, a, arena, cbk, p, repr, srcr)
                        })
                    };
                    match r {
                        Caught::Ok(Some(ab)) => {
                            slot = Some(ArenaSlot { arena: ab, metrics });
                            Caught::Ok(rep)
                        }
                        Caught::Ok(None) => Caught::Ok(None),
                        Caught::Stopped => Caught::Stopped,
                        Caught::Injected => Caught::Injected,
                        Caught::Unexpected(m) => Caught::Unexpected(m),
                    }
                }
            }
        };
        drop(ctxg);
        *ops = if out.is_empty() { recorded } else { out };
        let empty = BTreeSet::new();
        self.process_events(&empty, &empty);
        let rep = match res {
            Caught::Ok(r) => r,
            Caught::Injected | Caught::Stopped => None,
            Caught::Unexpected(msg) => {
                self.violate("C10.panic", format!("a {cbk:?} callback call on arena {a} panicked: {msg}"));
                if let Some(s) = slot {
                    std::mem::forget(s);
                }
                return;
            }
        };
        match slot {
            Some(s) => {
                self.arenas[a as usize] = Some(s);
                if consuming && !matches!(s_is_static, Some(true)) {
                    let b = &mut self.sh.arena_mut(a).root_is_b;
                    *b = !*b;
                }
            }
            None => {
                // consumed by a panicking or failing mapping: a failed constructor in effect
                self.stats.ctor_failures += 1;
                self.rt[a as usize].retained = Some(m.clone());
                self.sigmix(0xB7);
                if self.ok() {
                    self.account_dead_arena(a, true);
                }
                return;
            }
        }
        if !self.ok() {
            return;
        }
        self.after_callback(a, p, d0, c0, rep.as_ref(), false);
        self.sigmix(0xB0 + cbk as u64 * 4 + phase_code(p) as u64);
    }

    /// Oracles evaluated when a callback-taking call has returned (or unwound) and the arena is
    /// still there.
    pub fn after_callback(&mut self, a: Aid, p: Phase, d0: f64, c0: usize, rep: Option<&CbReport>, finalize: bool) {
        let post = self.phase(a);
        if !(post == p || (p == Phase::Marked && post == Phase::Marking)) {
            self.violate("C08.transition", format!("a callback moved arena {a} from {} to {}", phase_name(p), phase_name(post)));
            return;
        }
        let m = self.metrics(a).clone();
        let (d1, c1) = (m.allocation_debt(), m.total_gc_count());
        if c1 < c0 {
            self.violate("C03.count-shrank", format!("total_gc_count went from {c0} to {c1} across a callback"));
            return;
        }
        if let Some(rep) = rep {
            if rep.only_barriers && rep.ops_done > 0 && c1 != c0 {
                self.violate("C06.side-effect", format!("a barrier-only callback changed total_gc_count from {c0} to {c1}"));
                return;
            }
            if finalize && rep.resurrected_dead && post != Phase::Marking {
                self.violate("C07.phase", format!("a dead object was resurrected but the arena reports {}", phase_name(post)));
                return;
            }
        }
        // debt is never decreased by allocation, mutation or write barriers (C10). Decreases
        // are attributed op by op inside the callback; here only what no op explains.
        if d1 < d0 {
            match rep {
                Some(r) if r.known_decrease || r.resurrect_ops > 0 => {}
                // the callback unwound: we do not know which ops ran
                None => {}
                Some(_) => {
                    self.violate("C10.decrease", format!("allocation_debt went from {d0} to {d1} across a callback and no single operation in it accounts for that"));
                    return;
                }
            }
        }
        self.check_metrics(a);
        self.observe_state(a, 0xCB);
    }
}

/// Dropped during an unwind out of a consuming callback (`map_root` / `try_map_root`): from that
/// moment the arena is being torn down, so destructors are legitimate.
struct TearDownOnUnwind;
impl Drop for TearDownOnUnwind {
    fn drop(&mut self) {
        seam::set_ctx_kind(seam::CTX_ARENA_DROP);
    }
}

/// Callback body for an arena whose root holds no pointers: the ops see an empty root body that
/// is never written to (root writes are skipped: the shared form of `RootRef`).
fn static_body<'gc>(me: &mut World, a: Aid, mc: &'gc Mutation<'gc>, p: Phase, constructing: bool, src: &mut Src<'_>) -> CbReport {
    let rb = {
        let _p = seam::pause();
        empty_root_body(ROOT_SITE + a as u32)
    };
    let rep = body(me, a, mc, None, RootRef::Shared(&rb), p, constructing, src);
    let _p = seam::pause();
    drop(rb);
    rep
}

/// The same for a consuming callback (`new`, `try_new`, `map_root`, `try_map_root`).
fn static_owned_body<'gc>(me: &mut World, a: Aid, mc: &'gc Mutation<'gc>, p: Phase, constructing: bool, src: &mut Src<'_>, fail: bool) -> (CbReport, bool) {
    let guard = TearDownOnUnwind;
    let rep = static_body(me, a, mc, p, constructing, src);
    if fail {
        drop(guard);
    } else {
        std::mem::forget(guard);
    }
    (rep, fail)
}

/// Body of a callback that owns the root by value: a panic or an `Err` tears the arena down.
fn owned_body<'gc>(me: &mut World, a: Aid, mc: &'gc Mutation<'gc>, rb: &mut RootBody<'gc>, p: Phase, constructing: bool, src: &mut Src<'_>, fail: bool) -> (CbReport, bool) {
    let guard = TearDownOnUnwind;
    let rep = body(me, a, mc, None, RootRef::Mut(rb), p, constructing, src);
    if fail {
        drop(guard);
    } else {
        std::mem::forget(guard);
    }
    (rep, fail)
}

/// `map_root` / `try_map_root` between the two root types. Returns the new arena, or None if the
/// closure returned `Err` (the arena has been consumed).
fn map_arena(me: &mut World, a: Aid, arena: ArenaBox, cbk: CbKind, p: Phase, rep: &mut Option<CbReport>, src: &mut Src<'_>) -> Option<ArenaBox> {
    let fail = cbk == CbKind::TryMapRootErr;
    match (arena, cbk) {
        (ArenaBox::S(ar), CbKind::MapRoot) => Some(ArenaBox::S(ar.map_root::<gc_arena::Rootable![RootS]>(|mc, root| {
            let _p = seam::pause();
            *rep = Some(static_owned_body(me, a, mc, p, false, src, false).0);
            RootS { generation: root.generation + 1 }
        }))),
        (ArenaBox::S(ar), _) => ar
            .try_map_root::<gc_arena::Rootable![RootS], ()>(|mc, root| {
                let _p = seam::pause();
                *rep = Some(static_owned_body(me, a, mc, p, false, src, fail).0);
                if fail { Err(()) } else { Ok(RootS { generation: root.generation + 1 }) }
            })
            .ok()
            .map(ArenaBox::S),
        (ArenaBox::A(ar), CbKind::MapRoot) => Some(ArenaBox::B(ar.map_root::<gc_arena::Rootable![RootB<'_>]>(|mc, root| {
            let _p = seam::pause();
            let mut rb = root.body;
            *rep = Some(owned_body(me, a, mc, &mut rb, p, false, src, false).0);
            RootB { generation: 1, body: rb }
        }))),
        (ArenaBox::B(ar), CbKind::MapRoot) => Some(ArenaBox::A(ar.map_root::<gc_arena::Rootable![RootA<'_>]>(|mc, root| {
            let _p = seam::pause();
            let mut rb = root.body;
            *rep = Some(owned_body(me, a, mc, &mut rb, p, false, src, false).0);
            RootA { body: rb }
        }))),
        (ArenaBox::A(ar), _) => ar
            .try_map_root::<gc_arena::Rootable![RootB<'_>], ()>(|mc, root| {
                let _p = seam::pause();
                let mut rb = root.body;
                *rep = Some(owned_body(me, a, mc, &mut rb, p, false, src, fail).0);
                if fail { Err(()) } else { Ok(RootB { generation: 1, body: rb }) }
            })
            .ok()
            .map(ArenaBox::B),
        (ArenaBox::B(ar), _) => ar
            .try_map_root::<gc_arena::Rootable![RootA<'_>], ()>(|mc, root| {
                let _p = seam::pause();
                let mut rb = root.body;
                *rep = Some(owned_body(me, a, mc, &mut rb, p, false, src, fail).0);
                if fail { Err(()) } else { Ok(RootA { body: rb }) }
            })
            .ok()
            .map(ArenaBox::A),
    }
}
