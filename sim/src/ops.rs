//! Operation vocabulary: what the seeded scheduler can make the simulated parties do.
//! A recorded run is a list of `Event`s; executing it is a pure function of that list.

use serde::{Deserialize, Serialize};

pub type Id = u32;
pub type Aid = u8;
pub type Hid = u32;

#[derive(Serialize, Deserialize, Clone, Copy, Debug, PartialEq, Eq, PartialOrd, Ord, Hash)]
pub enum Kind {
    Node,
    Field,
    Raw,
    Cell,
    Once,
    Leaf,
    LeafLock,
    LeafStatic,
    SetHolder,
    /// the hidden Gc object inside a DynamicRootSet (never named by an op)
    SetInner,
    /// `[Lock<Edge>]`: a dynamically sized object whose elements are edges
    Slice { len: u8 },
    /// `SliceWithHeader<SwhHead, Lock<Edge>>`: slot 0 in the header, slots 1.. in the slice
    Swh { len: u8 },
    /// leaf from the layout family (index into lay::LAYS, runtime length)
    Lay { t: u8, len: u8 },
    /// completed token-bearing `SliceWithHeader<Tok, Tok>` made by a builder op (leaf)
    Built { len: u8 },
    /// the shared object of the root's ZstCache (never named by an op)
    ZstShared,
    /// `Gc<RefLock<BagBody>>`: edges in every element position of the std containers the crate
    /// provides Collect impls for (tuples first / last / nested, arrays, Box, Rc, LinkedList,
    /// VecDeque, BinaryHeap, BTreeMap key and value, BTreeSet, HashMap, nested Option, Result::Err)
    Bag,
    /// `Gc<[Edge]>` made by `Gc::new_slice` (the copy path): its edges are given at allocation and
    /// never change
    CopySlice { len: u8 },
    /// `SliceWithHeader<CopyHead, Edge>` completed with `copy_slice`: slot 0 in the header
    CopySwh { len: u8 },
    /// `Gc<ZTok>`: a zero-sized value with a destructor, allocated through `Gc::new` / `new_static`
    ZLeaf,
    /// `SliceWithHeader<SwhHead, u8>`: the header holds a pointer, the elements are plain bytes
    SwhPod { len: u8 },
    /// `Gc<Lock<PackedBody>>`: a `repr(packed)` payload (alignment 1) holding a strong and a weak edge
    CellP,
    /// `Gc<RefLock<LeakyBody>>`: one strong edge behind a RefLock whose write guard the client may
    /// leak (`mem::forget(g.borrow_mut(mc))`, safe code): from then on nobody - not the client, not
    /// the collector - can borrow it again
    Leaky,
}

impl Kind {
    pub fn n_strong(self) -> usize {
        use crate::payload::*;
        match self {
            Kind::Node => NODE_STRONG,
            Kind::Field => FIELD_STRONG,
            Kind::Raw => RAW_STRONG,
            Kind::Cell => 1,
            Kind::Once => 1,
            Kind::Leaf | Kind::LeafLock | Kind::LeafStatic => 0,
            Kind::SetHolder => 1, // the set's inner object; not writable
            Kind::SetInner => 0,  // grows with stashes
            Kind::Slice { len } => len as usize,
            Kind::Swh { len } => 1 + len as usize,
            Kind::Lay { .. } | Kind::Built { .. } | Kind::ZstShared => 0,
            Kind::Bag => BAG_STRONG,
            Kind::CopySlice { len } => len as usize,
            Kind::CopySwh { len } => 1 + len as usize,
            Kind::ZLeaf => 0,
            Kind::SwhPod { .. } => 1,
            Kind::CellP => 1,
            Kind::Leaky => 1,
        }
    }
    pub fn n_weak(self) -> usize {
        use crate::payload::*;
        match self {
            Kind::Bag => BAG_WEAK,
            Kind::CellP => 1,
            Kind::Node => NODE_WEAK,
            Kind::Field => FIELD_WEAK,
            Kind::Raw => RAW_WEAK,
            Kind::Cell => 1,
            _ => 0,
        }
    }
    /// strong slots an op may write
    pub fn writable_strong(self) -> usize {
        match self {
            Kind::SetHolder | Kind::SetInner | Kind::CopySlice { .. } | Kind::CopySwh { .. } => 0,
            k => k.n_strong(),
        }
    }
    pub fn has_tok(self) -> bool {
        !matches!(self, Kind::Cell | Kind::Once | Kind::LeafLock | Kind::SetInner | Kind::Slice { .. } | Kind::Lay { .. } | Kind::ZstShared | Kind::CopySlice { .. } | Kind::ZLeaf | Kind::CellP)
    }
    pub fn needs_trace(self) -> bool {
        !matches!(self, Kind::Leaf | Kind::LeafLock | Kind::LeafStatic | Kind::Lay { .. } | Kind::Built { .. } | Kind::ZstShared | Kind::ZLeaf)
    }
    /// ids an allocation of this kind consumes (the object itself + hidden companions / parts)
    pub fn ids_used(self) -> u32 {
        match self {
            Kind::SetHolder => 2,
            Kind::Built { len } => 1 + len as u32,
            _ => 1,
        }
    }
    /// can be the target of a typed DynamicRoot handle
    pub fn stashable(self) -> bool {
        matches!(self, Kind::Node | Kind::Field)
    }

}

/// Who holds the slot being written.
#[derive(Serialize, Deserialize, Clone, Copy, Debug, PartialEq, Eq, PartialOrd, Ord, Hash)]
pub enum Holder {
    Root,
    Obj(Id),
}

/// Which sanctioned route a write takes. Not every route applies to every (kind, slot); the
/// executor falls back to the kind's default route when it does not.
#[derive(Serialize, Deserialize, Clone, Copy, Debug, PartialEq, Eq, PartialOrd, Ord, Hash)]
pub enum Route {
    /// the kind's default safe setter (borrow_mut / set / field projection of that slot / &mut root)
    Default,
    /// `Gc::write(..).unlock()` spelled out instead of the shorthand setter
    WriteUnlock,
    /// `try_borrow_mut`
    TryBorrowMut,
    /// OnceLock: `get_or_init` instead of `set`
    GetOrInit,
    // explicit barrier forms for Raw nodes (barrier, then a raw Cell store)
    BackwardSome,
    BackwardNone,
    ForwardSome,
    ForwardNone,
    /// raw store with no barrier (only legal when storing None)
    NoBarrier,
    /// DST kinds: write through the thin representation / through a range projection
    ViaThin,
    ViaRange,
}

/// How a pointer is converted before it is stored (C19): what sits in the slot is the converted
/// representation only.
#[derive(Serialize, Deserialize, Clone, Copy, Debug, PartialEq, Eq, PartialOrd, Ord, Hash, Default)]
pub enum Conv {
    #[default]
    None,
    /// Gc::erase: stored as Gc<()>
    Erase,
    /// unsize! to a trait object
    Unsize,
    /// as_ptr -> from_ptr round trip
    Raw,
    /// downgrade -> upgrade round trip
    Weak,
    /// as_thin: stored in the thin representation
    Thin,
    /// a Node allocated with per-type metadata (then `erase_kind`) is given back the kind it was
    /// allocated with (`from_ptr_with_kind`, contract met) and stored in that kind
    Kind,
}

#[derive(Serialize, Deserialize, Clone, Copy, Debug, PartialEq, Eq)]
pub enum BKind {
    /// GcBuilder<Tok-bearing sized value>
    Sized,
    /// GcSliceWithHeaderBuilder<Tok, Tok>
    Swh,
    /// GcSliceBuilder<Tok>
    Slice,
    /// GcSliceBuilder<u32> finished with copy_slice
    CopySlice,
    /// GcStrBuilder finished with copy_str
    Str,
    /// the unwrap_static variants over plain data
    StaticSwh,
    /// header with a destructor, elements without drop glue (u32), finished with copy_slice
    SwhTokPod,
    /// header without drop glue (u64), elements with destructors
    SwhPodTok,
    /// GcSliceBuilder over zero-sized elements that have a destructor
    SliceZst,
    /// header with a destructor, zero-sized over-aligned elements that have a destructor
    SwhZst,
    /// GcSliceWithHeaderBuilder<Tok, Tok> carrying per-type metadata (a vtable of its own)
    SwhMeta,
    /// header and elements written through header_ptr / slice_ptr and the unsafe assume_init calls
    SwhRaw,
    /// GcBuilder taken apart with into_raw and put together again with from_raw before it is
    /// completed (as_ptr + assume_init) or abandoned
    SizedRaw,
    /// GcStrBuilder completed through str_ptr + assume_init
    StrRaw,
    /// `[Static<Tok>]` whose length comes from per-type metadata alone (a user PtrMeta / AllocMeta
    /// with zero-sized per-value metadata, `new_with_type_and_ptr_meta`): values WITH destructors
    /// whose fat pointer, layout, trace and destructor all depend on the `&'static M`
    TmToks,
}

#[derive(Serialize, Deserialize, Clone, Copy, Debug, PartialEq, Eq)]
pub enum BStage {
    /// drop the builder right after `new`
    AbandonNew,
    /// write the header, then drop
    AbandonAfterHeader,
    /// element constructor panics at index k
    PanicAt(u8),
    /// copy_slice / copy_str with a source whose length differs by this much
    WrongLen(i8),
    Complete,
}

/// The eight explicit barrier forms, for barrier-only ops.
#[derive(Serialize, Deserialize, Clone, Copy, Debug, PartialEq, Eq, PartialOrd, Ord, Hash)]
pub enum BarrierForm {
    BackwardSome,
    BackwardNone,
    BackwardWeak,
    ForwardSome,
    ForwardNone,
    ForwardWeakSome,
    ForwardWeakNone,
    /// `Gc::write` on the parent, result discarded
    Write,
    /// the kind's own setter writing back the value that is already there (Leaf*: borrow_mut / set)
    Touch,
}

#[derive(Serialize, Deserialize, Clone, Copy, Debug, PartialEq, Eq)]
pub enum Then {
    Discard,
    /// walk the strong closure of the upgraded pointer
    Traverse,
    /// store it into (holder, slot)
    Store { holder: Holder, slot: u8, route: Route },
}

#[derive(Serialize, Deserialize, Clone, Copy, Debug, PartialEq, Eq)]
pub enum SetRef {
    Root,
    Holder(Id),
}

/// One step of a callback body.
#[derive(Serialize, Deserialize, Clone, Debug, PartialEq)]
pub enum Op {
    /// allocate an object; it is garbage unless linked later in the same callback
    Alloc { id: Id, kind: Kind },
    Link {
        holder: Holder,
        slot: u8,
        child: Id,
        route: Route,
        #[serde(default)]
        conv: Conv,
    },
    Unlink { holder: Holder, slot: u8, route: Route },
    LinkWeak {
        holder: Holder,
        slot: u8,
        child: Id,
        route: Route,
        /// the weak pointer is stored in a converted representation (erased, unsized, thin, raw
        /// round trip, allocation kind): what upgrade / resurrect give back is converted too
        #[serde(default)]
        conv: Conv,
    },
    UnlinkWeak { holder: Holder, slot: u8, route: Route },
    Upgrade { holder: Holder, slot: u8, then: Then },
    IsDropped { holder: Holder, slot: u8 },
    Stash { set: SetRef, obj: Id, handle: Hid },
    /// present a handle to a set it may not belong to: contains / try_fetch / fetch
    Probe { handle: Hid, set: SetRef },
    BarrierOnly { form: BarrierForm, parent: Option<Id>, child: Option<Id> },
    /// allocate `n` temporaries with ids first.. (the pacing clock ticks)
    Burst { first: Id, n: u16 },
    // finalize callbacks only
    IsDead { holder: Holder, slot: u8, weak: bool },
    Resurrect { holder: Holder, slot: u8, weak: bool },
    /// unwind out of the callback here
    Panic,
    /// run a builder up to `stage`; its parts carry tokens first, first+1, ...
    Builder { first: Id, kind: BKind, n: u8, stage: BStage },
    /// convert a pointer through a chain of representations and back, checking identity and
    /// contents at every step; nothing is stored
    Convert { obj: Id, chain: Vec<Conv> },
    /// an immutable edge-carrying object made through the copy path (`Gc::new_slice`, or a
    /// slice-with-header builder finished with `copy_slice`): `children` are the edges it is born
    /// with (slot 0 goes into the header when `header`)
    AllocCopy { id: Id, children: Vec<Option<Id>>, header: bool },
    /// a DynamicRoot handle cloned or dropped by client code inside the callback (of its own
    /// arena or of another one)
    HandleIn { h: Hid, op: HandleOp },
    /// ZstCache::alloc / alloc_static of a zero-sized (align 2^a) or an ordinary value
    Zst { id: Id, a: u8, sized: bool, via_static: bool },
    /// `mem::forget(g.borrow_mut(mc))` on a Leaky object: safe code that leaves the RefLock
    /// mutably borrowed for ever
    LeakGuard { obj: Id },
}

#[derive(Serialize, Deserialize, Clone, Copy, Debug, PartialEq, Eq, PartialOrd, Ord, Hash)]
pub enum CbKind {
    Mutate,
    MutateRoot,
    MapRoot,
    TryMapRoot,
    /// try_map_root whose closure returns Err after running its ops (the arena is consumed)
    TryMapRootErr,
}

#[derive(Serialize, Deserialize, Clone, Copy, Debug, PartialEq, Eq, PartialOrd, Ord, Hash)]
pub enum Call {
    CollectDebt,
    MarkDebt,
    FinishMarking,
    CycleDebt,
    FinishCycle,
}

/// What to do to the debt right before a collection call (step-size control, DESIGN 2.8).
#[derive(Serialize, Deserialize, Clone, Copy, Debug, PartialEq)]
pub enum Debt {
    Leave,
    /// make the debt exactly this value (dyadic); 2^-10 buys one work unit
    Set(f64),
    /// adjust_debt(+x)
    Add(f64),
}

#[derive(Serialize, Deserialize, Clone, Debug, PartialEq)]
pub enum MarkedAction {
    Drop,
    StartSweeping,
    Finalize(Vec<Op>),
}

#[derive(Serialize, Deserialize, Clone, Copy, Debug, PartialEq)]
pub struct PacingSpec {
    pub sleep_factor: f64,
    pub min_sleep: u32,
    pub mark: f64,
    pub trace: f64,
    pub keep: f64,
    pub drop: f64,
    pub free: f64,
}

impl PacingSpec {
    pub fn to_pacing(self) -> gc_arena::metrics::Pacing {
        gc_arena::metrics::Pacing {
            sleep_factor: self.sleep_factor,
            min_sleep: self.min_sleep as usize,
            mark_factor: self.mark,
            trace_factor: self.trace,
            keep_factor: self.keep,
            drop_factor: self.drop,
            free_factor: self.free,
        }
    }
    /// What a freshly made context starts with.
    pub fn default_spec() -> PacingSpec {
        let d = gc_arena::metrics::Pacing::DEFAULT;
        PacingSpec { sleep_factor: d.sleep_factor, min_sleep: d.min_sleep as u32, mark: d.mark_factor, trace: d.trace_factor, keep: d.keep_factor, drop: d.drop_factor, free: d.free_factor }
    }
    pub fn rho(self) -> f64 {
        let a = self.mark + self.trace + self.keep;
        let b = self.drop + self.free;
        let c = self.mark + self.drop + self.keep;
        a.max(b).max(c)
    }
    pub fn all_zero(self) -> bool {
        self.mark == 0.0 && self.trace == 0.0 && self.keep == 0.0 && self.drop == 0.0 && self.free == 0.0
    }
}

#[derive(Serialize, Deserialize, Clone, Copy, Debug, PartialEq, Eq)]
pub enum HandleOp {
    Clone { new: Hid },
    Drop,
}

/// One scheduled event: exactly one party acts.
#[derive(Serialize, Deserialize, Clone, Debug, PartialEq)]
pub enum Event {
    /// the mutator: one callback on arena `a`
    Mutate { a: Aid, cb: CbKind, ops: Vec<Op> },
    /// the collector: one collection call on arena `a`; if it hands out a MarkedArena, `then`
    Collect { a: Aid, debt: Debt, call: Call, then: MarkedAction },
    /// an external handle owner, outside any callback
    Handle { h: Hid, op: HandleOp },
    SetPacing { a: Aid, p: PacingSpec },
    AdjustDebt { a: Aid, x: f64 },
    /// arm a trace fault: panic at the `at`-th FaultPoint trace of the run, `repeat` times
    ArmTraceFault { at: u64, repeat: u32 },
    /// arm a destructor fault: the `nth` destructor run by a collection method from now on unwinds
    ArmDropFault { nth: u32 },
    /// `root_set` is the id given to the hidden Gc object of the root's DynamicRootSet
    /// (`root_set + 1` to the shared object of its ZstCache)
    NewArena {
        a: Aid,
        root_set: Id,
        ops: Vec<Op>,
        p: PacingSpec,
        fail: CtorFail,
        /// a root with no DynamicRootSet and no ZstCache: the arena can become completely empty
        #[serde(default)]
        bare: bool,
        /// a root type that holds no pointers (NEEDS_TRACE = false): nothing survives a callback
        #[serde(default)]
        static_root: bool,
    },
    DropArena { a: Aid },
    /// `arena::rootless_mutate`: a context of its own that lives for one callback; `a` is a fresh
    /// arena index used for nothing else, `root_set` reserves two ids as a bare root does
    Rootless { a: Aid, root_set: Id, ops: Vec<Op> },
}

#[derive(Serialize, Deserialize, Clone, Copy, Debug, PartialEq, Eq)]
pub enum CtorFail {
    No,
    /// Arena::try_new whose closure returns Err after its ops
    TryNewErr,
    /// Arena::try_new, succeeding
    TryNewOk,
}

/// How a run ends (property-specific suffix, DESIGN 2.9).
#[derive(Serialize, Deserialize, Clone, Copy, Debug, PartialEq, Eq)]
pub enum Suffix {
    /// finish_cycle x2 + exactness, clear weak, full cycle, shell release, drop arenas, accounting
    Settle,
    /// drop every arena where it stands, then accounting
    DropNow,
    /// nothing (the run just stops; arenas are dropped without the final accounting oracles)
    None,
}

#[derive(Serialize, Deserialize, Clone, Debug, PartialEq)]
pub struct Trace {
    pub events: Vec<Event>,
    pub suffix: Suffix,
    pub quarantine: bool,
    /// the allocator seam hands released addresses out again at once (identical layouts, LIFO)
    #[serde(default)]
    pub recycle: bool,
}
