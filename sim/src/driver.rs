//! Driver: partitions run indices over worker processes, merges what they report, confronts
//! violations with the known-findings file, minimises, writes replay files and evidence.

use std::collections::BTreeMap;
use std::io::Write;
use std::path::{Path, PathBuf};
use std::process::{Command, Stdio};
use std::time::{Duration, Instant};

use crate::ops::*;
use crate::props;
use crate::run::{self, BatchStats};
use crate::shapes::{self, Found, Sink};
use crate::world::ExecCfg;

pub const VERIF_DIR: &str = "/verif";

/// Where evidence and replay files go: /verif, unless a sensitivity run redirects them.
pub fn out_dir() -> PathBuf {
    PathBuf::from(std::env::var("VERIF_OUT").unwrap_or_else(|_| VERIF_DIR.to_string()))
}

#[derive(Clone, Debug, serde::Serialize, serde::Deserialize)]
pub struct WorkerResult {
    pub bs: BatchStats,
    pub found: Vec<Found>,
    pub samples: Vec<serde_json::Value>,
    pub done: u64,
}

#[derive(Clone, Debug, serde::Serialize, serde::Deserialize)]
pub struct ReplayFile {
    pub version: u32,
    pub property: String,
    pub oracle: String,
    pub seed: u64,
    pub run_index: u64,
    pub sub: u32,
    pub profile: String,
    pub trace: Trace,
    pub violation: crate::world::Violation,
    pub log_digest: String,
    pub minimised: bool,
    /// for probe-based checks (C13): the probe binary that must replay this
    #[serde(default)]
    pub probe: Option<String>,
    /// the violation is a crash of the process (the trace was recovered from a streamed file)
    #[serde(default)]
    pub crash: bool,
    /// the violation is undefined behaviour reported by Miri: replayed under Miri
    #[serde(default)]
    pub miri: bool,
}

#[derive(Clone, Debug, serde::Serialize, serde::Deserialize)]
pub struct KnownFinding {
    pub property: String,
    /// "known" or "fixed"
    pub status: String,
    #[serde(default)]
    pub commit: Option<String>,
    pub oracle: String,
    /// substring the violation detail (or the known-finding tag) must contain
    pub signature: String,
    pub what: String,
}

pub fn load_known() -> Vec<KnownFinding> {
    let p = Path::new(VERIF_DIR).join("known_findings.json");
    match std::fs::read_to_string(&p) {
        Ok(s) => serde_json::from_str(&s).unwrap_or_else(|e| {
            eprintln!("harness error: cannot parse {}: {e}", p.display());
            std::process::exit(2)
        }),
        Err(_) => vec![],
    }
}

pub fn budget(prop: &str, tier: &str) -> u64 {
    let quick = match prop {
        "C01" => 160_000,
        "C02" => 12_000,
        "C03" => 60_000,
        "C04" => 12_000,
        "C05" => 160_000,
        "C06" => 160_000,
        "C07" => 160_000,
        "C08" => 120_000,
        "C09" => 60_000,
        "C10" => 160_000,
        "C11" => 2_400,
        "C14" => 160_000,
        "C17" => 100_000,
        "C18" => 100_000,
        "C19" => 120_000,
        "C20" => 120_000,
        _ => 40_000,
    };
    let n = match tier {
        "thorough" => quick * 16,
        _ => quick,
    };
    let n: u64 = std::env::var("VERIF_RUNS").ok().and_then(|s| s.parse().ok()).unwrap_or(n);
    // the plain profile re-runs a share of the same indices
    let share: u64 = std::env::var("VERIF_PLAIN_SHARE").ok().and_then(|s| s.parse().ok()).unwrap_or(1);
    (n / share.max(1)).max(1)
}

pub fn profile_name() -> &'static str {
    if cfg!(debug_assertions) { "checked" } else { "plain" }
}

pub fn ecfg() -> ExecCfg {
    ExecCfg { log: false, coverage: true, plain_profile: !cfg!(debug_assertions) }
}

/// `sim worker <prop> <seed> <start> <stride> <count> <out>`
pub fn worker(args: &[String]) -> i32 {
    let prop = &args[0];
    let seed: u64 = args[1].parse().unwrap();
    let start: u64 = args[2].parse().unwrap();
    let stride: u64 = args[3].parse().unwrap();
    let count: u64 = args[4].parse().unwrap();
    let out = PathBuf::from(&args[5]);
    let cur_path = out.with_extension("cur");
    let mut cur = std::fs::File::create(&cur_path).unwrap();
    let mut bs = BatchStats::default();
    let mut found = vec![];
    let mut samples = vec![];
    let mut done = 0;
    let deadline = std::env::var("VERIF_WORKER_DEADLINE_S").ok().and_then(|s| s.parse::<u64>().ok()).map(|s| Instant::now() + Duration::from_secs(s));
    // on a tree that violates the property there is no point in finishing the batch: stop once
    // this many further run indices have brought no *new* oracle id (never triggers on a clean tree)
    let early: u64 = std::env::var("VERIF_EARLY_STOP").ok().and_then(|s| s.parse().ok()).unwrap_or((count / 8).clamp(200, 3000));
    let mut oracles_seen = 0usize;
    let mut last_new = 0u64;
    {
        let mut sink = Sink { prop, verif_seed: seed, bs: &mut bs, found: &mut found, samples: &mut samples, ecfg: ecfg() };
        let mut i = start;
        for _ in 0..count {
            // where we are, for the driver's crash / hang attribution
            use std::io::{Seek, SeekFrom};
            let _ = cur.seek(SeekFrom::Start(0));
            let _ = cur.write_all(format!("{i:020}\n").as_bytes());
            let before = sink.found.len();
            shapes::exec_index(&mut sink, i);
            // what was found is written at once: a later crash of this process must not lose it
            if sink.found.len() > before {
                let mut f = std::fs::OpenOptions::new().create(true).append(true).open(&out).unwrap();
                for x in &sink.found[before..] {
                    let _ = writeln!(f, "F {}", serde_json::to_string(x).unwrap());
                }
            }
            done += 1;
            i += stride;
            if sink.found.len() >= 12 {
                break;
            }
            let distinct = sink.found.iter().map(|f| f.oracle.as_str()).collect::<std::collections::BTreeSet<_>>().len();
            if distinct > oracles_seen {
                oracles_seen = distinct;
                last_new = done;
            }
            if oracles_seen > 0 && done - last_new >= early {
                break;
            }
            if deadline.is_some_and(|d| Instant::now() > d) {
                break;
            }
        }
    }
    let res = WorkerResult { bs, found: vec![], samples, done };
    let mut f = std::fs::OpenOptions::new().create(true).append(true).open(&out).unwrap();
    let _ = writeln!(f, "R {}", serde_json::to_string(&res).unwrap());
    let _ = std::fs::remove_file(&cur_path);
    0
}

fn scratch_dir(prop: &str) -> PathBuf {
    let d = Path::new(VERIF_DIR).join("target").join("work").join(format!("{prop}-{}", std::process::id()));
    let _ = std::fs::create_dir_all(&d);
    d
}

pub struct Batch {
    /// scale scenarios run by this check (plan, outcome text)
    pub scale: Vec<serde_json::Value>,
    pub merged: BatchStats,
    pub found: Vec<Found>,
    pub samples: Vec<serde_json::Value>,
    pub crashes: Vec<(u64, String)>,
    pub done: u64,
}

/// Run indices 0..n of `prop` on `workers` worker processes.
pub fn run_batch(prop: &str, seed: u64, n: u64, workers: u64) -> Batch {
    let exe = std::env::current_exe().unwrap();
    let dir = scratch_dir(prop);
    let mut kids = vec![];
    for w in 0..workers {
        let count = (n + workers - 1 - w) / workers;
        if count == 0 {
            continue;
        }
        let out = dir.join(format!("w{w}.json"));
        let child = Command::new(&exe)
            .args(["worker", prop, &seed.to_string(), &w.to_string(), &workers.to_string(), &count.to_string(), out.to_str().unwrap()])
            .stdout(Stdio::null())
            .stderr(Stdio::piped())
            .spawn()
            .expect("spawn worker");
        kids.push((w, child, out, Instant::now(), String::new()));
    }
    let mut merged = BatchStats::default();
    let mut found: Vec<Found> = vec![];
    let mut samples = vec![];
    let mut crashes = vec![];
    let mut done = 0;
    // a worker that dies is replaced by one that takes up its share right after the index that
    // killed it (a few times at most), so that one crashing run does not hide what the rest of
    // the share would have shown
    let mut restarts: BTreeMap<u64, u32> = BTreeMap::new();
    let hang_limit = Duration::from_secs(std::env::var("VERIF_HANG_S").ok().and_then(|s| s.parse().ok()).unwrap_or(120));
    // watchdog: a worker stuck on one run index for too long is killed
    let mut last_cur: BTreeMap<u64, (String, Instant)> = BTreeMap::new();
    let mut pending: Vec<_> = kids.into_iter().collect();
    while !pending.is_empty() {
        let mut still = vec![];
        for (w, mut child, out, t0, note) in pending {
            match child.try_wait() {
                Ok(Some(status)) => {
                    let cur = std::fs::read_to_string(out.with_extension("cur")).unwrap_or_default();
                    let mut err = String::new();
                    if let Some(mut e) = child.stderr.take() {
                        use std::io::Read;
                        let _ = e.read_to_string(&mut err);
                    }
                    let text = std::fs::read_to_string(&out).unwrap_or_default();
                    let mut result: Option<WorkerResult> = None;
                    for line in text.lines() {
                        if let Some(j) = line.strip_prefix("F ") {
                            if let Ok(x) = serde_json::from_str::<Found>(j) {
                                found.push(x);
                            }
                        } else if let Some(j) = line.strip_prefix("R ") {
                            result = serde_json::from_str::<WorkerResult>(j).ok();
                        }
                    }
                    match result {
                        Some(r) if status.success() => {
                            merged.merge(&r.bs);
                            if samples.len() < 3 {
                                samples.extend(r.samples);
                            }
                            done += r.done;
                        }
                        _ => {
                            let idx: u64 = cur.trim().parse().unwrap_or(u64::MAX);
                            let tail: String = err.lines().rev().take(6).collect::<Vec<_>>().into_iter().rev().collect::<Vec<_>>().join(" | ");
                            crashes.push((idx, format!("worker {w} died ({status}) {note} at run index {idx}: {tail}")));
                            let k = restarts.entry(w).or_insert(0);
                            if idx != u64::MAX && *k < 6 && found.len() < 64 {
                                *k += 1;
                                let next = idx + workers;
                                // indices of this share: w, w + workers, ... below n
                                let remaining = if next < n { (n - next + workers - 1) / workers } else { 0 };
                                if remaining > 0 {
                                    let out2 = dir.join(format!("w{w}r{k}.json"));
                                    if let Ok(child2) = Command::new(&exe)
                                        .args(["worker", prop, &seed.to_string(), &next.to_string(), &workers.to_string(), &remaining.to_string(), out2.to_str().unwrap()])
                                        .stdout(Stdio::null())
                                        .stderr(Stdio::piped())
                                        .spawn()
                                    {
                                        last_cur.remove(&w);
                                        still.push((w, child2, out2, Instant::now(), String::new()));
                                    }
                                }
                            }
                        }
                    }
                }
                Ok(None) => {
                    let cur = std::fs::read_to_string(out.with_extension("cur")).unwrap_or_default();
                    let e = last_cur.entry(w).or_insert((cur.clone(), Instant::now()));
                    if e.0 != cur {
                        *e = (cur, Instant::now());
                    }
                    if e.1.elapsed() > hang_limit {
                        let _ = child.kill();
                        still.push((w, child, out, t0, "after being killed by the watchdog (no progress)".to_string()));
                    } else {
                        still.push((w, child, out, t0, note));
                    }
                }
                Err(_) => {}
            }
        }
        pending = still;
        if !pending.is_empty() {
            std::thread::sleep(Duration::from_millis(20));
        }
    }
    let _ = std::fs::remove_dir_all(&dir);
    found.sort_by_key(|f| (f.idx, f.sub));
    Batch { scale: vec![], merged, found, samples, crashes, done }
}

// ------------------------------------------------------------------------------------------------
// minimisation (ddmin over events, then over ops)

fn still_fails(t: &Trace, oracle: &str) -> bool {
    let o = run::run_replay(t, &ecfg());
    o.viol.as_ref().is_some_and(|v| v.oracle == oracle || v.aliases.iter().any(|a| a == oracle))
}

fn ops_of(e: &mut Event) -> Option<&mut Vec<Op>> {
    match e {
        Event::Mutate { ops, .. } | Event::NewArena { ops, .. } | Event::Rootless { ops, .. } => Some(ops),
        Event::Collect { then: MarkedAction::Finalize(ops), .. } => Some(ops),
        _ => None,
    }
}

/// How long a single trace may run in a process of its own before it counts as hung (an ordinary
/// run takes milliseconds).
fn one_run_limit() -> Duration {
    Duration::from_secs(std::env::var("VERIF_RUN_HANG_S").ok().and_then(|s| s.parse().ok()).unwrap_or(20))
}

/// Wait for a child for at most `limit`; a child still running then is killed (None).
fn status_within(cmd: &mut Command, limit: Duration) -> Option<std::process::ExitStatus> {
    let mut child = cmd.spawn().ok()?;
    let t0 = Instant::now();
    loop {
        match child.try_wait() {
            Ok(Some(s)) => return Some(s),
            Ok(None) => {
                if t0.elapsed() > limit {
                    let _ = child.kill();
                    let _ = child.wait();
                    return None;
                }
                std::thread::sleep(Duration::from_millis(5));
            }
            Err(_) => return None,
        }
    }
}

/// Does executing `t` in a process of its own kill that process (or never end)?
fn crashes(t: &Trace) -> bool {
    let exe = std::env::current_exe().unwrap();
    let tmp = out_dir().join("replays").join(format!(".cand-{}.json", std::process::id()));
    let rf = ReplayFile { version: 1, property: "?".into(), oracle: "crash".into(), seed: 0, run_index: 0, sub: 0, profile: profile_name().into(), trace: t.clone(), violation: crate::world::Violation { oracle: "crash".into(), event: 0, detail: String::new(), aliases: vec![] }, log_digest: String::new(), minimised: false, probe: None, crash: true, miri: false };
    if std::fs::write(&tmp, serde_json::to_vec(&rf).unwrap()).is_err() {
        return false;
    }
    let st = status_within(Command::new(&exe).args(["replay-inner", tmp.to_str().unwrap()]).stdout(Stdio::null()).stderr(Stdio::null()), one_run_limit() / 3);
    let _ = std::fs::remove_file(&tmp);
    match st {
        Some(s) => s.code().is_none() || s.code() == Some(134),
        None => true, // hung
    }
}

pub fn minimise(t: &Trace, oracle: &str, budget: Duration) -> Trace {
    let t0 = Instant::now();
    let mut cur = t.clone();
    let crash_mode = oracle.ends_with("crash");
    let still_fails = |t: &Trace, o: &str| if crash_mode { crashes(t) } else { still_fails(t, o) };
    if !still_fails(&cur, oracle) {
        return cur;
    }
    // events (never the first: it creates arena 0)
    let mut chunk = (cur.events.len() / 2).max(1);
    while chunk >= 1 && t0.elapsed() < budget {
        let mut i = 1;
        let mut progress = false;
        while i < cur.events.len() && t0.elapsed() < budget {
            let end = (i + chunk).min(cur.events.len());
            let mut cand = cur.clone();
            cand.events.drain(i..end);
            if still_fails(&cand, oracle) {
                cur = cand;
                progress = true;
            } else {
                i = end;
            }
        }
        if chunk == 1 && !progress {
            break;
        }
        chunk = if chunk == 1 { 1 } else { chunk / 2 };
        if chunk == 1 && !progress && cur.events.len() <= 2 {
            break;
        }
    }
    // ops inside callbacks
    let mut changed = true;
    while changed && t0.elapsed() < budget {
        changed = false;
        for ei in 0..cur.events.len() {
            let n = ops_of(&mut cur.events[ei]).map(|o| o.len()).unwrap_or(0);
            let mut oi = 0;
            let mut len = n;
            while oi < len && t0.elapsed() < budget {
                let mut cand = cur.clone();
                ops_of(&mut cand.events[ei]).unwrap().remove(oi);
                if still_fails(&cand, oracle) {
                    cur = cand;
                    len -= 1;
                    changed = true;
                } else {
                    oi += 1;
                }
            }
        }
    }
    // argument simplification: single work units -> whole calls, bursts -> 1, quarantine stays
    for ei in 0..cur.events.len() {
        if t0.elapsed() >= budget {
            break;
        }
        let mut cand = cur.clone();
        let touched = match &mut cand.events[ei] {
            Event::Collect { debt, .. } if *debt != Debt::Leave => {
                *debt = Debt::Leave;
                true
            }
            _ => false,
        };
        if touched && still_fails(&cand, oracle) {
            cur = cand;
        }
        let mut cand = cur.clone();
        let mut touched = false;
        if let Some(ops) = ops_of(&mut cand.events[ei]) {
            for o in ops.iter_mut() {
                if let Op::Burst { n, .. } = o {
                    if *n > 1 {
                        *n = 1;
                        touched = true;
                    }
                }
            }
        }
        if touched && still_fails(&cand, oracle) {
            cur = cand;
        }
    }
    cur
}

/// `sim minimize <in> <out>`: in a process of its own, so that a crashing candidate cannot take
/// the driver down.
pub fn minimize_cmd(args: &[String]) -> i32 {
    let rf: ReplayFile = serde_json::from_slice(&std::fs::read(&args[0]).unwrap()).unwrap();
    // the oracle id as reported may be an alias or a borrowed id ("C11.C01.x"): minimise on the
    // id the executor itself raises
    let base_oracle = if rf.oracle == rf.violation.oracle || rf.violation.aliases.contains(&rf.oracle) { rf.oracle.clone() } else { rf.violation.oracle.clone() };
    let t = minimise(&rf.trace, &base_oracle, Duration::from_secs(if rf.crash { 150 } else { 30 }));
    if rf.crash {
        // never execute a crashing trace in this process
        let out = ReplayFile { trace: t, minimised: true, ..rf };
        std::fs::write(&args[1], serde_json::to_vec_pretty(&out).unwrap()).unwrap();
        return 0;
    }
    let o = run::run_replay(&t, &ecfg());
    let Some(v) = o.viol.clone() else { return 3 };
    let out = ReplayFile { trace: o.trace.clone(), violation: v, log_digest: format!("{:016x}", o.digest), minimised: true, ..rf };
    std::fs::write(&args[1], serde_json::to_vec_pretty(&out).unwrap()).unwrap();
    0
}

/// `sim replay <file>`: execute the recorded trace with no PRNG; exit 1 and print the violation
/// if it reproduces, exit 0 if the run is clean.
pub fn replay_cmd(args: &[String]) -> i32 {
    // a scale scenario (scale.rs) has a plan instead of a trace
    if let Some(v) = std::fs::read(&args[0]).ok().and_then(|b| serde_json::from_slice::<serde_json::Value>(&b).ok()) {
        if let Some(plan) = v.get("scale").and_then(|p| serde_json::from_value::<crate::scale::Plan>(p.clone()).ok()) {
            let prop = v["property"].as_str().unwrap_or("?").to_string();
            return match crate::scale::run_plan(&plan) {
                crate::scale::Outcome::Held => {
                    println!("REPLAY property={prop} scale scenario {} (n = {}, stack {} KiB): clean", plan.variant, plan.n, plan.stack_kib);
                    0
                }
                crate::scale::Outcome::Violated(m) => {
                    println!("REPLAY property={prop} scale scenario {} (n = {}, stack {} KiB): {m}", plan.variant, plan.n, plan.stack_kib);
                    println!("VIOLATION property={prop} replay={}", args[0]);
                    1
                }
            };
        }
    }
    // the trace is executed in a child process, so that a crash is an outcome like any other
    let exe = std::env::current_exe().unwrap();
    let prop = || std::fs::read(&args[0]).ok().and_then(|b| serde_json::from_slice::<ReplayFile>(&b).ok()).map(|r| r.property).unwrap_or_default();
    let mut child = match Command::new(&exe).arg("replay-inner").args(args).spawn() {
        Ok(c) => c,
        Err(e) => {
            eprintln!("harness error: cannot start the replay process: {e}");
            return 2;
        }
    };
    // a trace that does not end is an outcome too (a call into the crate that never returns)
    let limit = one_run_limit() * 3;
    let t0 = Instant::now();
    let st = loop {
        match child.try_wait() {
            Ok(Some(s)) => break Some(s),
            Ok(None) if t0.elapsed() > limit => {
                let _ = child.kill();
                let _ = child.wait();
                break None;
            }
            Ok(None) => std::thread::sleep(Duration::from_millis(5)),
            Err(_) => break None,
        }
    };
    match st {
        Some(s) if s.code() == Some(0) => 0,
        Some(s) if s.code() == Some(1) => 1,
        Some(s) if s.code() == Some(2) => 2,
        Some(s) => {
            let prop = prop();
            println!("REPLAY property={prop} the process executing the trace died ({s})");
            println!("VIOLATION property={prop} replay={}", args[0]);
            1
        }
        None => {
            let prop = prop();
            println!("REPLAY property={prop} the process executing the trace did not end within {}s: a call into the crate never returns", limit.as_secs());
            println!("VIOLATION property={prop} replay={}", args[0]);
            1
        }
    }
}

/// `sim replay-inner <file>`: what `replay` runs in a child process.
pub fn replay_inner_cmd(args: &[String]) -> i32 {
    let rf: ReplayFile = match std::fs::read(&args[0]).ok().and_then(|b| serde_json::from_slice(&b).ok()) {
        Some(r) => r,
        None => {
            eprintln!("harness error: cannot read replay file {}", args[0]);
            return 2;
        }
    };
    if rf.profile != profile_name() {
        eprintln!("note: recorded on profile {}, replaying on {}", rf.profile, profile_name());
    }
    let verbose = args.iter().any(|a| a == "-v");
    let mut e = ecfg();
    e.log = verbose;
    let o = run::run_replay(&rf.trace, &e);
    if verbose {
        for l in &o.log {
            println!("{l}");
        }
    }
    match &o.viol {
        Some(v) => {
            let same = (v.oracle == rf.violation.oracle || v.aliases.contains(&rf.oracle)) && v.event == rf.violation.event;
            println!("REPLAY property={} oracle={} event={} log_digest={:016x} same_as_recorded={} digest_matches={}", rf.property, v.oracle, v.event, o.digest, same, format!("{:016x}", o.digest) == rf.log_digest);
            println!("  {}", v.detail);
            println!("VIOLATION property={} replay={}", rf.property, args[0]);
            1
        }
        None => {
            println!("REPLAY property={} clean log_digest={:016x}", rf.property, o.digest);
            0
        }
    }
}

// ------------------------------------------------------------------------------------------------
// check

pub struct CheckOutput {
    pub violations: u64,
    pub known_lines: Vec<String>,
    pub harness_error: Option<String>,
}

pub fn write_replay(prop: &str, seed: u64, f: &Found) -> PathBuf {
    let dir = out_dir().join("replays");
    let _ = std::fs::create_dir_all(&dir);
    let name = format!("{prop}-{}-s{seed}-i{}-{}-{}.json", f.oracle.replace('.', "_"), f.idx, f.sub, profile_name());
    let path = dir.join(name);
    let rf = ReplayFile {
        version: 1,
        property: prop.to_string(),
        oracle: f.oracle.clone(),
        seed,
        run_index: f.idx,
        sub: f.sub,
        profile: profile_name().to_string(),
        trace: f.trace.clone(),
        violation: f.viol.clone(),
        log_digest: format!("{:016x}", f.digest),
        minimised: false,
        probe: None,
        crash: false,
        miri: false,
    };
    let full = path.with_extension("full.json");
    std::fs::write(&full, serde_json::to_vec_pretty(&rf).unwrap()).unwrap();
    // minimise in a subprocess
    let exe = std::env::current_exe().unwrap();
    let st = Command::new(&exe).args(["minimize", full.to_str().unwrap(), path.to_str().unwrap()]).stdout(Stdio::null()).stderr(Stdio::null()).status();
    if !st.map(|s| s.success()).unwrap_or(false) || !path.exists() {
        let _ = std::fs::copy(&full, &path);
    }
    path
}

fn matches_known<'k>(known: &'k [KnownFinding], prop: &str, oracle: &str, detail: &str) -> Option<&'k KnownFinding> {
    known.iter().find(|k| k.status == "known" && k.property == prop && (k.oracle == oracle || oracle.ends_with(&k.oracle)) && detail.contains(&k.signature))
}

/// `sim check <prop> <tier>`
pub fn check_cmd(args: &[String]) -> i32 {
    let prop = args[0].as_str();
    let tier = std::env::var("VERIF_TIER").ok().filter(|t| t == "quick" || t == "thorough").unwrap_or_else(|| args.get(1).cloned().unwrap_or("quick".into()));
    let seed: u64 = std::env::var("VERIF_SEED").ok().and_then(|s| s.parse().ok()).unwrap_or(1);
    let workers: u64 = std::env::var("VERIF_WORKERS").ok().and_then(|s| s.parse().ok()).unwrap_or(16);
    // the workers (and the re-runs that capture a crash) take the tier from the environment
    // SAFETY: no other thread exists yet
    unsafe { std::env::set_var("VERIF_TIER", &tier) };
    if !props::CLAIMED.contains(&prop) {
        eprintln!("harness error: no check for property {prop}");
        return 2;
    }
    let t0 = Instant::now();
    let n = budget(prop, &tier);
    println!("check {prop} tier={tier} VERIF_SEED={seed} runs={n} workers={workers} profile={}", profile_name());
    let mut batch = run_batch(prop, seed, n, workers);
    let known = load_known();
    let mut violations = 0u64;
    let mut known_lines: Vec<String> = vec![];
    let mut reported: Vec<serde_json::Value> = vec![];

    // scale scenarios under a small stack (fault kind: stack exhaustion), checked profile only
    if cfg!(debug_assertions) && !cfg!(miri) {
        for plan in crate::scale::plans(prop, seed, tier == "thorough") {
            let t1 = Instant::now();
            let out = crate::scale::run_plan(&plan);
            let held = matches!(out, crate::scale::Outcome::Held);
            batch.scale.push(serde_json::json!({"variant": plan.variant, "n": plan.n, "stack_kib": plan.stack_kib, "held": held, "wall_s": t1.elapsed().as_secs_f64()}));
            if let crate::scale::Outcome::Violated(msg) = out {
                violations += 1;
                let dir = out_dir().join("replays");
                let _ = std::fs::create_dir_all(&dir);
                let path = dir.join(format!("{prop}-scale-{}-s{seed}.json", plan.variant));
                let oracle = format!("{prop}.scale-{}", plan.variant);
                let _ = std::fs::write(&path, serde_json::to_vec_pretty(&serde_json::json!({"version": 1, "property": prop, "oracle": oracle, "seed": seed, "scale": plan, "violation": msg})).unwrap());
                println!("VIOLATION property={prop} replay={} oracle={oracle}", path.display());
                println!("  {} (n = {}, stack {} KiB): {msg}", plan.variant, plan.n, plan.stack_kib);
                reported.push(serde_json::json!({"oracle": oracle, "detail": msg, "replay": path.display().to_string()}));
            }
        }
    }

    // worker crashes and hangs
    let mut harness_error = None;
    for (idx, msg) in &batch.crashes {
        if props::owns(prop, "crash") || msg.contains("watchdog") && matches!(prop, "C08" | "C09" | "C11") {
            violations += 1;
            if reported.iter().any(|r: &serde_json::Value| r["oracle"] == format!("{prop}.crash")) {
                continue; // one crash replay per batch is enough
            }
            let dir = out_dir().join("replays");
            let _ = std::fs::create_dir_all(&dir);
            // recover the trace: re-run that index in a process of its own, streaming every event
            // and op before it is executed
            let stream = dir.join(format!(".stream-{prop}-{idx}.txt"));
            let exe = std::env::current_exe().unwrap();
            let _ = status_within(Command::new(&exe).args(["one", prop, &seed.to_string(), &idx.to_string(), "--stream", stream.to_str().unwrap()]).stdout(Stdio::null()).stderr(Stdio::null()), one_run_limit());
            let trace = std::fs::read_to_string(&stream).ok().and_then(|t| run::trace_from_stream(&t));
            let _ = std::fs::remove_file(&stream);
            let path = match trace {
                Some(trace) => {
                    let path = dir.join(format!("{prop}-crash-s{seed}-i{idx}-{}.json", profile_name()));
                    let n = trace.events.len();
                    let rf = ReplayFile { version: 1, property: prop.to_string(), oracle: format!("{prop}.crash"), seed, run_index: *idx, sub: 0, profile: profile_name().to_string(), trace, violation: crate::world::Violation { oracle: format!("{prop}.crash"), event: n.saturating_sub(1), detail: msg.clone(), aliases: vec![] }, log_digest: String::new(), minimised: false, probe: None, crash: true, miri: false };
                    let full = path.with_extension("full.json");
                    let _ = std::fs::write(&full, serde_json::to_vec_pretty(&rf).unwrap());
                    let st = Command::new(&exe).args(["minimize", full.to_str().unwrap(), path.to_str().unwrap()]).stdout(Stdio::null()).stderr(Stdio::null()).status();
                    if !st.map(|s| s.success()).unwrap_or(false) || !path.exists() {
                        let _ = std::fs::copy(&full, &path);
                    }
                    path
                }
                None => {
                    let path = dir.join(format!("{prop}-crash-s{seed}-i{idx}.txt"));
                    let _ = std::fs::write(&path, format!("property {prop}\nseed {seed}\nrun_index {idx}\n{msg}\nre-run: sim one {prop} {seed} {idx}\n(the trace could not be recovered)\n"));
                    path
                }
            };
            println!("VIOLATION property={prop} replay={} oracle={prop}.crash event=? ({msg})", path.display());
            reported.push(serde_json::json!({"oracle": format!("{prop}.crash"), "run_index": idx, "detail": msg, "replay": path.display().to_string()}));
        } else {
            println!("note: {msg} (counted as a run aborted by a foreign violation)");
            harness_error.get_or_insert(msg.clone());
        }
    }

    // first violation per oracle
    let mut seen: BTreeMap<String, ()> = BTreeMap::new();
    for f in &batch.found {
        if seen.contains_key(&f.oracle) {
            continue;
        }
        seen.insert(f.oracle.clone(), ());
        if let Some(k) = matches_known(&known, prop, &f.oracle, &f.viol.detail) {
            let line = format!("KNOWN-FINDING: property={prop} {} [{}]", k.what, k.oracle);
            if !known_lines.contains(&line) {
                known_lines.push(line);
            }
            continue;
        }
        violations += 1;
        let path = write_replay(prop, seed, f);
        // what the minimised file says
        let (oracle, event, detail) = match std::fs::read(&path).ok().and_then(|b| serde_json::from_slice::<ReplayFile>(&b).ok()) {
            Some(rf) => (f.oracle.clone(), rf.violation.event, rf.violation.detail),
            None => (f.oracle.clone(), f.viol.event, f.viol.detail.clone()),
        };
        println!("VIOLATION property={prop} replay={} oracle={oracle} event={event}", path.display());
        println!("  {detail}");
        reported.push(serde_json::json!({"oracle": oracle, "run_index": f.idx, "sub": f.sub, "detail": detail, "replay": path.display().to_string()}));
    }

    // known findings met by tag during the runs (e.g. the C10 forward-barrier decrease)
    for (tag, count) in &batch.merged.known {
        let mut it = tag.splitn(2, ' ');
        let (p, what) = (it.next().unwrap_or(""), it.next().unwrap_or(""));
        if p != prop {
            continue;
        }
        match known.iter().find(|k| k.status == "known" && k.property == p && k.signature == what) {
            Some(k) => {
                let line = format!("KNOWN-FINDING: property={prop} {} [{}; met in {count} runs]", k.what, k.oracle);
                known_lines.push(line);
            }
            None => {
                violations += 1;
                println!("VIOLATION property={prop} replay=none oracle={prop}.{what} event=? (met in {count} runs and not listed in known_findings.json)");
            }
        }
    }
    for l in &known_lines {
        println!("{l}");
    }

    let wall = t0.elapsed().as_secs_f64();
    write_evidence(prop, &tier, seed, &batch, violations, &reported, &known_lines, wall);
    println!(
        "{prop}: {} executions over {} run indices in {:.1}s; distinct non-trivial {}; foreign-aborted {:?}; violations {violations}",
        batch.merged.runs,
        batch.done,
        wall,
        batch.merged.sigs_nontrivial.len(),
        batch.merged.foreign
    );
    if violations > 0 {
        1
    } else if batch.done == 0 {
        eprintln!("harness error: no run completed ({:?})", harness_error);
        2
    } else {
        0
    }
}

pub fn rule_for(prop: &str) -> String {
    let how = "Cases are whole simulated executions: a seeded scheduler (one PRNG per run, seed = splitmix(VERIF_SEED ^ fnv(property) ^ index*phi)) draws a swarm configuration (graph size class, event count, op mix, enabled object kinds and write routes, step policy down to single collector work units, pacing family, handles, arenas, faults) and then every event (mutator callback with 1-8 ops / collection call of controlled size / handle operation / pacing or debt change / fault arming / arena creation or drop) against the real gc-arena crate, with a shadow reachability graph, drop tokens and an allocator seam as oracles. ";
    let shape = match prop {
        "C02" => "Shape: every prefix of each generated schedule (<= 40 events) is re-executed and followed by finish_cycle x2 with the exactness oracle, weak-slot clearing, one more full cycle and the shell-release oracle; each prefix execution counts as one evaluation. ",
        "C04" => "Shape: every prefix of each generated schedule (<= 40 events) is re-executed and followed by dropping the arena right there, then the exactly-once / all-memory-returned accounting; each prefix execution counts as one evaluation. ",
        "C11" => "Shape: a fault-free schedule is generated, then re-executed once per fault position: a panic at each k-th FaultPoint trace call (object and root traces, single and repeated), at each op index of each callback (new, mutate, mutate_root, map_root, try_map_root, finalize), and Err from try_new / try_map_root; each followed by the settle suffix under the C01-C05 oracles; each re-execution counts as one evaluation. ",
        _ => "Shape: free run followed by the settle suffix (finish_cycle x2 exactness, shell release, arena drop accounting, handles dropped after their arena). ",
    };
    let nt = match prop {
        "C01" => "a mutation applied while not Sleeping and a collection call that started or ended mid-cycle",
        "C02" => "a cut outside Sleeping, or unreachable objects with outgoing edges (cycles / chains), or weakly held garbage at the cut",
        "C03" => "a callback entered with positive debt outside Sleeping, or with gray work pending",
        "C04" => "an arena drop outside Sleeping, or with at least two of {strongly held, shell, garbage} present",
        "C05" => "a weak query on a target that is not strongly reachable, or made outside Sleeping",
        "C06" | "C13" => "an adoption performed during Marking/Marked into a parent that is already fully traced (black)",
        "C07" => "a finalize callback that queried at least one unreachable (dead) target",
        "C08" => "collection calls issued from at least two different phases",
        "C09" => "an evaluation of the liveness bound on an unfinished cycle after a debt-driven wake, or a sleep-threshold crossing",
        "C10" => "a barrier that fired during marking, or an adjustment made while debt was positive",
        "C11" => "a fault that fired and a collection call that completed afterwards",
        "C14" => "a handle operation outside Sleeping, or a foreign handle presented",
        "C20" => "two arenas simultaneously mid-cycle",
        _ => "the property's antecedent (see DESIGN.md 2.12)",
    };
    format!("{how}{shape}An execution is non-trivial iff it contains {nt}. Two executions are distinct iff their abstract signatures differ: a hash over the sequence of (event kind, callback kind, phase before -> after, write route x parent colour x child colour class, weak-query outcome, number of destructors / releases class), with object ids and addresses erased. distinct_nontrivial counts signature values seen in non-trivial executions (hash sets merged across the 16 workers).")
}

/// Cells of the property's coverage matrix that this batch never hit. The universes are products,
/// so a listed cell may be infeasible (e.g. a refused upgrade of a reachable target); a cell that
/// is feasible and stays at zero means the workload or fault mix should change.
pub fn zero_cells(prop: &str, cells: &BTreeMap<String, u64>) -> Vec<String> {
    let phases = ["Sleeping", "Marking", "Marked", "Sweeping"];
    let mut universe: Vec<String> = vec![];
    let prefixes_of = |pre: &str, n: usize| -> std::collections::BTreeSet<String> { cells.keys().filter(|k| k.starts_with(pre)).map(|k| k.split('|').take(n).collect::<Vec<_>>().join("|")).collect() };
    match prop {
        "C08" | "C09" => {
            for call in ["CollectDebt", "MarkDebt", "FinishMarking", "CycleDebt", "FinishCycle"] {
                for p in phases {
                    for d in ["zero", "eps", "moderate", "huge"] {
                        for pc in ["paced", "stw"] {
                            universe.push(format!("call|{call}|{p}|{d}|{pc}"));
                        }
                    }
                }
            }
            universe.push("call|StartSweeping|Marked".into());
        }
        "C04" => {
            for p in phases {
                universe.push(format!("arena-drop|{p}"));
            }
        }
        "C05" => {
            for q in ["is_dropped", "upgrade-some", "upgrade-none"] {
                for st in ["reachable", "weak-only", "destructed", "fresh"] {
                    for p in phases {
                        // cells that only a violation can reach are not part of the universe: a
                        // destructed target upgraded, a reachable or fresh target refused
                        let infeasible = matches!((q, st), ("upgrade-some", "destructed") | ("upgrade-none", "reachable") | ("upgrade-none", "fresh"));
                        if !infeasible {
                            universe.push(format!("weakq|{q}|{st}|{p}"));
                        }
                    }
                }
            }
            // compare on the first four components
            let hit = prefixes_of("weakq|", 4);
            return universe.into_iter().filter(|u| !hit.contains(u)).collect();
        }
        "C06" => {
            // every write route seen anywhere x every phase
            let routes = prefixes_of("link:", 1).into_iter().chain(prefixes_of("linkweak:", 1)).chain(prefixes_of("barrier:", 1)).chain(["stash".to_string(), "root-write".to_string(), "root-write-weak".to_string()]);
            let hit = prefixes_of("", 2);
            let mut z = vec![];
            for r in routes {
                for p in phases {
                    let c = format!("{r}|{p}");
                    if !hit.contains(&c) {
                        z.push(c);
                    }
                }
            }
            return z;
        }
        "C17" => {
            for l in crate::lay::LAYS {
                universe.push(format!("lay|{}", l.name));
            }
        }
        "C18" => {
            for k in ["Sized", "Swh", "Slice", "CopySlice", "Str", "StaticSwh", "SwhTokPod", "SwhPodTok", "SliceZst", "SwhZst", "SwhMeta", "SwhRaw", "SizedRaw", "StrRaw"] {
                let stages: &[&str] = match k {
                    "Sized" | "SizedRaw" | "StrRaw" => &["AbandonNew", "Complete"],
                    "SwhRaw" => &["AbandonNew", "AbandonAfterHeader", "Complete"],
                    "SliceZst" => &["AbandonNew", "PanicAt", "Complete"],
                    "CopySlice" | "Str" => &["AbandonNew", "WrongLen"],
                    "StaticSwh" => &["AbandonNew", "AbandonAfterHeader", "Complete"],
                    "SwhTokPod" => &["AbandonNew", "AbandonAfterHeader", "PanicAt", "WrongLen", "Complete"],
                    _ => &["AbandonNew", "AbandonAfterHeader", "PanicAt", "Complete"],
                };
                for st in stages {
                    for p in phases {
                        universe.push(format!("builder|{k}|{st}|{p}"));
                    }
                }
            }
        }
        "C19" => {
            for c in ["Erase", "Unsize", "Raw", "Weak", "Thin", "Kind"] {
                for p in phases {
                    universe.push(format!("conv|{c}|{p}"));
                    if c != "Weak" {
                        universe.push(format!("wconv|{c}|{p}"));
                    }
                }
            }
        }
        _ => {}
    }
    universe.into_iter().filter(|u| !cells.contains_key(u)).collect()
}

#[allow(clippy::too_many_arguments)]
pub fn write_evidence(prop: &str, tier: &str, seed: u64, b: &Batch, violations: u64, reported: &[serde_json::Value], known_lines: &[String], wall: f64) {
    let level = match prop {
        "C04" | "C11" | "C18" => "fault_enumeration",
        _ => "exploration",
    };
    let m = &b.merged;
    let zero_cells: Vec<String> = zero_cells(prop, &m.cells);
    let mut top_cells: Vec<(&String, &u64)> = m.cells.iter().collect();
    top_cells.sort();
    let cells: BTreeMap<String, u64> = top_cells.iter().map(|(k, v)| ((*k).clone(), **v)).collect();
    let faults: BTreeMap<&str, u64> = [
        ("trace_panics_fired", m.totals.get("trace_faults_fired").copied().unwrap_or(0)),
        ("callback_panics", m.totals.get("callback_panics").copied().unwrap_or(0)),
        ("constructor_or_mapping_failures", m.totals.get("ctor_failures").copied().unwrap_or(0)),
        ("arena_drops", m.totals.get("arena_drops").copied().unwrap_or(0)),
        ("destructor_panics_fired", m.totals.get("destructor_panics_fired").copied().unwrap_or(0)),
        ("address_reuses_forced", m.totals.get("address_reuses_forced").copied().unwrap_or(0)),
        ("builders_abandoned_or_faulted", m.flags.get("C18.abandoned").copied().unwrap_or(0)),
        ("rootless_contexts_torn_down", m.cells.get("rootless").copied().unwrap_or(0)),
        ("runs_with_a_leaked_write_guard", m.flags.get("C07.guard-leaked").copied().unwrap_or(0)),
    ]
    .into_iter()
    .collect();
    let ev = serde_json::json!({
        "property_id": prop,
        "tier": tier,
        "seed": seed,
        "level": level,
        "coverage": {
            "evaluations": m.runs,
            "distinct_nontrivial": m.sigs_nontrivial.len(),
            "distinct_signatures": m.sigs_all.len(),
            "rule": rule_for(prop),
            "samples": b.samples,
            "run_indices": b.done,
            "runs_per_hour": if wall > 0.0 { (m.runs as f64 / wall * 3600.0) as u64 } else { 0 },
            "simulated_time": {
                "pacing_clock_ticks_allocations": m.totals.get("allocs").copied().unwrap_or(0),
                "events": m.totals.get("events").copied().unwrap_or(0),
                "client_ops": m.totals.get("ops").copied().unwrap_or(0),
                "collection_calls": m.totals.get("collect_calls").copied().unwrap_or(0),
            },
            "faults_fired": faults,
            "scale_scenarios_small_stack": b.scale,
            "states": m.states.len(),
            "transitions": m.transitions.len(),
            "states_measure": "hash of the collector state read through the cfg(gc_arena_verif) snapshot hook: phase, root flag, and per object in list order (colour, live, needs_trace, before/after sweep cursor, shadow-reachable, kind), queue lengths; transitions are (state, event label, state') triples",
            "totals": m.totals,
            "nontriviality_flags": m.flags,
            "coverage_cells": cells,
            "coverage_cells_zero": zero_cells,
            "runs_aborted_by_foreign_violation": m.foreign,
            "known_findings_met": known_lines,
            "c09_max_ratio_allocations_over_bound": m.c09_max_ratio,
            "batch_digest": format!("{:016x}", m.digest),
            "profile": profile_name(),
            "real_vs_stub": "real: the whole gc-arena crate built from /repo's working tree (with --cfg gc_arena_verif, read-only snapshot hook) and gc-arena-derive output for the harness types; stubbed: the client program (generated), payload types (harness-defined derive(Collect) / hand-written Collect), the global allocator (tracking wrapper over System)",
            "violations_reported": reported,
            "worker_crashes": b.crashes.iter().map(|c| c.1.clone()).collect::<Vec<_>>(),
        },
        "assumptions": [
            "client Collect impls are correct apart from injected panics",
            "default feature set, x86-64 Linux, one thread",
            "schedules, graphs (<= 48 reachable objects; <= 144 in the long runs of the thorough tier), pacings (a dyadic family + DEFAULT + stop-the-world) and client behaviours (a fixed op vocabulary) are sampled, not enumerated",
            "allocation failure is out of scope; destructors unwind only where the fault kind ArmDropFault is drawn (C02, C04, C05); clients never leak borrow guards"
        ],
        "wall_s": wall,
        "violations": violations,
    });
    let dir = out_dir().join("evidence");
    let _ = std::fs::create_dir_all(&dir);
    std::fs::write(dir.join(format!("{prop}.json")), serde_json::to_vec_pretty(&ev).unwrap()).unwrap();
}

/// `sim one <prop> <seed> <idx>`: run a single index in this process, verbosely.
pub fn one_cmd(args: &[String]) -> i32 {
    let prop = &args[0];
    let seed: u64 = args[1].parse().unwrap();
    let idx: u64 = args[2].parse().unwrap();
    if let Some(i) = args.iter().position(|a| a == "--stream") {
        let p = PathBuf::from(&args[i + 1]);
        run::STREAM_TO.with(|s| *s.borrow_mut() = Some(p));
    }
    let mut bs = BatchStats::default();
    let mut found = vec![];
    let mut samples = vec![];
    let mut sink = Sink { prop, verif_seed: seed, bs: &mut bs, found: &mut found, samples: &mut samples, ecfg: ecfg() };
    shapes::exec_index(&mut sink, idx);
    println!("index {idx}: {} executions, digest {:016x}", bs.runs, bs.digest);
    for f in &found {
        println!("  {} sub {} event {}: {}", f.oracle, f.sub, f.viol.event, f.viol.detail);
        if args.iter().any(|a| a == "--trace") {
            println!("{}", serde_json::to_string(&f.trace).unwrap());
        }
    }
    println!("foreign {:?}", bs.foreign);
    if found.is_empty() { 0 } else { 1 }
}

/// `sim miri-batch <prop> <seed> <from> <count> <dir>` (run under `cargo miri`): free runs of the
/// property's swarm, shrunk (props::swarm under cfg(miri)), each streamed to
/// `<dir>/<prop>-i<idx>.stream` before it is executed so that the trace survives if the interpreter
/// stops the process on undefined behaviour. A clean run removes its stream file. An oracle
/// violation (the oracles run here too, minus the allocator seam) is written as an ordinary replay
/// file next to it.
pub fn miri_batch_cmd(args: &[String]) -> i32 {
    let prop = &args[0];
    let seed: u64 = args[1].parse().unwrap();
    let from: u64 = args[2].parse().unwrap();
    let count: u64 = args[3].parse().unwrap();
    let dir = PathBuf::from(&args[4]);
    let _ = std::fs::create_dir_all(&dir);
    let mut bad = 0;
    let (mut events, mut ops, mut collects) = (0u64, 0u64, 0u64);
    for idx in from..from + count {
        let rs = crate::rng::run_seed(seed, prop, idx);
        let (g, suffix, _shape) = props::swarm(prop, rs);
        let stream = dir.join(format!("{prop}-i{idx}.stream"));
        run::STREAM_TO.with(|s| *s.borrow_mut() = Some(stream.clone()));
        let o = run::run_generated(rs, &g, &ecfg(), suffix);
        run::STREAM_TO.with(|s| *s.borrow_mut() = None);
        events += o.stats.events;
        ops += o.stats.ops;
        collects += o.stats.collect_calls;
        match &o.viol {
            Some(v) if props::owns_any(prop, v).is_some() => {
                bad += 1;
                let path = dir.join(format!("{prop}-i{idx}.oracle.json"));
                let rf = ReplayFile { version: 1, property: prop.to_string(), oracle: v.oracle.clone(), seed, run_index: idx, sub: 0, profile: "checked".into(), trace: o.trace.clone(), violation: v.clone(), log_digest: format!("{:016x}", o.digest), minimised: false, probe: None, crash: false, miri: false };
                let _ = std::fs::write(&path, serde_json::to_vec_pretty(&rf).unwrap());
                println!("MIRI-ORACLE {prop} index {idx} {} event {}: {} [{}]", v.oracle, v.event, v.detail, path.display());
            }
            _ => {}
        }
        let _ = std::fs::remove_file(&stream);
        println!("MIRI-RUN {prop} index {idx} events {} ops {} digest {:016x}", o.stats.events, o.stats.ops, o.digest);
    }
    println!("MIRI-DONE {prop} from {from} count {count} events {events} ops {ops} collect_calls {collects} oracle_violations {bad}");
    if bad > 0 { 1 } else { 0 }
}

/// `sim stream2replay <prop> <seed> <idx> <stream file> <out> <detail>`: what a run that the
/// interpreter stopped had streamed so far becomes a replay file (marked `miri`).
pub fn stream2replay_cmd(args: &[String]) -> i32 {
    let prop = &args[0];
    let seed: u64 = args[1].parse().unwrap();
    let idx: u64 = args[2].parse().unwrap();
    let Some(trace) = std::fs::read_to_string(&args[3]).ok().and_then(|t| run::trace_from_stream(&t)) else {
        eprintln!("harness error: cannot rebuild a trace from {}", args[3]);
        return 2;
    };
    let n = trace.events.len();
    let rf = ReplayFile {
        version: 1,
        property: prop.to_string(),
        oracle: format!("{prop}.miri"),
        seed,
        run_index: idx,
        sub: 0,
        profile: "miri".into(),
        trace,
        violation: crate::world::Violation { oracle: format!("{prop}.miri"), event: n.saturating_sub(1), detail: args.get(5).cloned().unwrap_or_default(), aliases: vec![] },
        log_digest: String::new(),
        minimised: false,
        probe: None,
        crash: true,
        miri: true,
    };
    match std::fs::write(&args[4], serde_json::to_vec_pretty(&rf).unwrap()) {
        Ok(()) => 0,
        Err(_) => 2,
    }
}

/// `sim digest <prop> <seed> <from> <count>`: per-index digests, for the determinism proof.
pub fn digest_cmd(args: &[String]) -> i32 {
    let prop = &args[0];
    let seed: u64 = args[1].parse().unwrap();
    let from: u64 = args[2].parse().unwrap();
    let count: u64 = args[3].parse().unwrap();
    for idx in from..from + count {
        let mut bs = BatchStats::default();
        let mut found = vec![];
        let mut samples = vec![];
        let mut sink = Sink { prop, verif_seed: seed, bs: &mut bs, found: &mut found, samples: &mut samples, ecfg: ecfg() };
        shapes::exec_index(&mut sink, idx);
        println!("{prop} {idx} {:016x} {} {}", bs.digest, bs.runs, found.len());
    }
    0
}

/// `sim selfreplay <prop> <seed> <from> <count>`: generate each run, replay its recorded trace
/// with no PRNG, and compare digests, signatures and verdicts (the replay half of the
/// determinism proof). Prints one line per mismatch; exit 1 if any.
pub fn selfreplay_cmd(args: &[String]) -> i32 {
    let prop = &args[0];
    let seed: u64 = args[1].parse().unwrap();
    let from: u64 = args[2].parse().unwrap();
    let count: u64 = args[3].parse().unwrap();
    let mut bad = 0;
    for idx in from..from + count {
        let rs = crate::rng::run_seed(seed, prop, idx);
        let (g, suffix, _shape) = props::swarm(prop, rs);
        let a = run::run_generated(rs, &g, &ecfg(), suffix);
        let b = run::run_replay(&a.trace, &ecfg());
        let same = a.digest == b.digest && a.sig == b.sig && a.viol.as_ref().map(|v| &v.oracle) == b.viol.as_ref().map(|v| &v.oracle) && a.trace == b.trace;
        if !same {
            bad += 1;
            println!("MISMATCH {prop} {idx}: generated digest {:016x} sig {:016x} viol {:?}; replayed digest {:016x} sig {:016x} viol {:?}; trace equal {}", a.digest, a.sig, a.viol.as_ref().map(|v| &v.oracle), b.digest, b.sig, b.viol.as_ref().map(|v| &v.oracle), a.trace == b.trace);
        }
    }
    println!("selfreplay {prop} {from}..{}: {bad} mismatches", from + count);
    if bad > 0 { 1 } else { 0 }
}
